"""Prototype reference semantics (line-identity based) for Circuit construction incl. add with heralds."""
import itertools, math, random
import numpy as np
import lightworks as lw
from lightworks import emulator as emu
from thewalrus import perm

class Ref:
    """lines: list of line ids in 'full' order is irrelevant; we keep user (ordered list) and anc (list of (line, n))."""
    _next = 0
    def __init__(self, n):
        self.user = [Ref.fresh() for _ in range(n)]   # user-visible lines, in order
        self.anc = []                                  # (line_in==line, n) ancillas from sub-circuits
        self.ops = []                                  # list of (kind, lines, params)
        self.hin = {}                                  # own (external) heralds: user line -> n   (input)
        self.hout = {}                                 # user line -> n (output)
        self.hpairs = []                               # declaration order [(in_line,out_line,n)]
    @staticmethod
    def fresh():
        Ref._next += 1; return Ref._next
    def lines(self):
        return self.user + [a for a,_ in self.anc]
    def bs(self, m1, m2, r, conv): self.ops.append(("bs", (self.user[m1], self.user[m2]), (r, conv)))
    def ps(self, m, phi): self.ops.append(("ps", (self.user[m],), (phi,)))
    def loss(self, m, l): self.ops.append(("loss", (self.user[m],), (l,)))
    def swaps(self, d): self.ops.append(("perm", None, {self.user[k]: self.user[v] for k,v in d.items()}))
    def unitary(self, m, U): self.ops.append(("u", tuple(self.user[m:m+U.shape[0]]), (U,)))
    def herald(self, n, i, o):
        self.hin[self.user[i]] = n; self.hout[self.user[o]] = n; self.hpairs.append((self.user[i], self.user[o], n))
    def add(self, sub, m):
        # sub: Ref. all of sub's heralds (own + ancillas) become ancillas of self.
        sub_in_h = set(sub.hin) | {a for a,_ in sub.anc}
        sub_out_h = set(sub.hout) | {a for a,_ in sub.anc}
        nonh_in = [l for l in sub.user if l not in sub.hin]
        nonh_out = [l for l in sub.user if l not in sub.hout]
        assert len(nonh_in) == len(nonh_out)
        k = len(nonh_in)
        assert m + k <= len(self.user)
        f = {}
        for t, l in enumerate(nonh_in): f[l] = self.user[m+t]
        new_anc = []
        for (a, n) in sub.anc:
            f[a] = Ref.fresh(); new_anc.append((f[a], n))
        for (i, o, n) in sub.hpairs:
            f[i] = Ref.fresh(); new_anc.append((f[i], n))
        # any remaining sub lines (herald output lines that are non-herald inputs are already mapped); lines that are herald-out only but non-herald-in -> mapped above
        for (kind, ls, p) in sub.ops:
            if kind == "perm":
                self.ops.append(("perm", None, {f[a]: f[b] for a,b in p.items()}))
            else:
                self.ops.append((kind, tuple(f[l] for l in ls), p))
        # output permutation: sub output line -> parent line
        P = {}
        for t, l in enumerate(nonh_out): P[f[l]] = self.user[m+t]
        for (i, o, n) in sub.hpairs: P[f[o]] = f[i]
        for (a, n) in sub.anc: P[f[a]] = f[a]
        assert sorted(P.keys()) == sorted(P.values()), (P,)
        self.ops.append(("perm", None, P))
        self.anc += new_anc
    def matrix(self):
        """returns U_full over order: user lines, ancillas, loss modes"""
        L = self.lines(); idx = {l:i for i,l in enumerate(L)}
        n = len(L); U = np.eye(n, dtype=complex)
        for kind, ls, p in self.ops:
            n = U.shape[0]
            M = np.eye(n, dtype=complex)
            if kind == "bs":
                a, b = idx[ls[0]], idx[ls[1]]; r, conv = p
                c, s = math.sqrt(r), math.sqrt(1-r)
                if conv == "Rx": M[a,a]=c; M[a,b]=1j*s; M[b,a]=1j*s; M[b,b]=c
                else: M[a,a]=c; M[a,b]=s; M[b,a]=s; M[b,b]=-c
            elif kind == "ps":
                a = idx[ls[0]]; M[a,a] = np.exp(1j*p[0])
            elif kind == "loss":
                U = np.pad(U, (0,1)); U[-1,-1] = 1; n += 1
                M = np.eye(n, dtype=complex); a = idx[ls[0]]; t = 1-p[0]
                M[a,a]=math.sqrt(t); M[n-1,n-1]=math.sqrt(t); M[a,n-1]=math.sqrt(1-t); M[n-1,a]=math.sqrt(1-t)
            elif kind == "perm":
                M = np.zeros((n,n), dtype=complex)
                full = {i:i for i in range(n)}
                for a,b in p.items(): full[idx[a]] = idx[b]
                for i,j in full.items(): M[j,i] = 1
            elif kind == "u":
                ii = [idx[l] for l in ls]; M[np.ix_(ii,ii)] = p[0]
            U = M @ U
        return U
    def amp(self, ins, outs):
        """heralded amplitude: ins/outs are occupations over non-heralded user lines (in order)."""
        U = self.matrix(); L = self.lines(); N = U.shape[0]
        fin = []; fout = []
        it = iter(ins); ot = iter(outs)
        for l in self.user:
            fin.append(self.hin[l] if l in self.hin else next(it))
        for l in self.user:
            fout.append(self.hout[l] if l in self.hout else next(ot))
        for a,n in self.anc: fin.append(n); fout.append(n)
        fin += [0]*(N-len(L)); fout += [0]*(N-len(L))
        if sum(fin) != sum(fout): return 0
        x=[];y=[]
        for i in range(N): x += [i]*fout[i]; y += [i]*fin[i]
        if not x: return 1.0
        num = perm(U[np.ix_(x,y)])
        den = math.sqrt(math.prod(math.factorial(i) for i in fin)*math.prod(math.factorial(i) for i in fout))
        return num/den
