------------------------------ MODULE SpikeC02b ------------------------------
EXTENDS LwCircuitSpike2
CONSTANTS PNu, MaxSteps
VARIABLES circ, sem, prog
vars == <<circ, sem, prog>>
TemplateOps(n) == [i \in 1..n |-> OpPs(i, i + 1)] \o [i \in 1..(n-1) |-> OpBs(i, i+1, 2, IF i % 2 = 1 THEN "Rx" ELSE "H")]
             \o <<<<"loss", <<1>>, 2>>>>
InitCirc == << [New(PNu) EXCEPT !.ops = <<OpPs(1, 4)>> \o [i \in 1..(PNu-1) |-> OpBs(i, i+1, 2, "Rx")]],
               [New(3) EXCEPT !.ops = TemplateOps(3)],
               [New(2) EXCEPT !.ops = TemplateOps(2)] >>
Init == /\ circ = InitCirc
        /\ sem = [o \in 1..3 |-> SemL(InitCirc[o])]
        /\ prog = <<>>
Herald(o, n, i, out) ==
   /\ o \in {2,3}
   /\ Len(circ[o].hord) < circ[o].nu - 1
   /\ ~ \E k \in 1..Len(prog) : prog[k][1] = "add" /\ prog[k][2] = o
   /\ i \notin HIn(circ[o]) /\ out \notin HOut(circ[o])
   /\ circ' = [circ EXCEPT ![o].hord = Append(@, <<i, out, n>>)]
   /\ prog' = Append(prog, <<"herald", o, n, i - 1, out - 1>>)
   /\ UNCHANGED sem
AddTo(s, m, grp) ==
   /\ s \in {2,3}
   /\ Cardinality({k \in 1..Len(prog) : prog[k][1] = "add" /\ prog[k][2] = s}) < 1
   /\ AddOk(circ[1], circ[s], m)
   /\ Len(circ[1].anc) + Len(circ[s].hord) <= 3
   /\ circ' = [circ EXCEPT ![1] = AddResult(circ[1], circ[s], m, grp)]
   /\ sem' = [sem EXCEPT ![1] = AddSem(circ[1], circ[s], m, sem[1], sem[s])]
   /\ prog' = Append(prog, <<"add", s, m, grp>>)
ProbeLoss(m) ==
   /\ Len(prog) > 0 /\ prog[Len(prog)][1] = "add"
   /\ LET c == circ[1]  n == DimL(c)  kNew == 0
          c2 == [c EXCEPT !.ops = Append(@, <<"loss", <<m>>, 2>>)]
          n2 == n + 1
          padded == ReEmbed(sem[1], [i \in 1..n |-> i], n2)
      IN /\ circ' = [circ EXCEPT ![1] = c2]
         /\ sem' = [sem EXCEPT ![1] = MMul(OpMatL(c2, <<"loss", <<m>>, 2>>, n2, NLoss(c.ops)), padded, n2)]
   /\ prog' = Append(prog, <<"loss", 1, m - 1, 2>>)
Next == /\ Len(prog) < MaxSteps
        /\ \/ \E o \in {2,3}, n \in {0,1}, i \in 1..3, out \in 1..3 : i <= circ[o].nu /\ out <= circ[o].nu /\ Herald(o, n, i, out)
           \/ \E s \in {2,3}, m \in 0..PNu, grp \in BOOLEAN : AddTo(s, m, grp)
           \/ \E m \in 1..PNu : ProbeLoss(m)
Spec == Init /\ [][Next]_vars
Composition == \A o \in 1..3 : sem[o] = SemL(circ[o])
Unitary == IsUnitary(sem[1], DimL(circ[1]))
=============================================================================
