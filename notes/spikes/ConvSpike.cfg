CONSTANTS NQ = 4
MaxGates = 4
FixedRule = TRUE
SPECIFICATION Spec
INVARIANT Safe
CHECK_DEADLOCK FALSE
