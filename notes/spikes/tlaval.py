"""Minimal parser for TLA+ values as printed by TLC (-dump / traces)."""
import re
TOK = re.compile(r'\s*(<<|>>|\[|\]|\{|\}|\(|\)|\|->|:>|@@|,|"(?:[^"\\]|\\.)*"|-?\d+|[A-Za-z_][A-Za-z0-9_]*)')
def tokenize(s):
    pos=0; out=[]
    while True:
        m=TOK.match(s,pos)
        if not m:
            if s[pos:].strip()=="" : return out
            raise ValueError("bad token at %r"%s[pos:pos+30])
        out.append(m.group(1)); pos=m.end()
class P:
    def __init__(s,toks): s.t=toks; s.i=0
    def peek(s): return s.t[s.i] if s.i<len(s.t) else None
    def eat(s,x=None):
        v=s.t[s.i]; s.i+=1
        if x is not None and v!=x: raise ValueError("expected %s got %s"%(x,v))
        return v
    def val(s):
        t=s.peek()
        if t=="<<":
            s.eat(); out=[]
            while s.peek()!=">>":
                out.append(s.val())
                if s.peek()==",": s.eat()
            s.eat(">>"); return tuple(out)
        if t=="{":
            s.eat(); out=[]
            while s.peek()!="}":
                out.append(s.val())
                if s.peek()==",": s.eat()
            s.eat("}"); return frozenset(out)
        if t=="[":
            s.eat(); d={}
            while s.peek()!="]":
                k=s.eat(); s.eat("|->"); d[k]=s.val()
                if s.peek()==",": s.eat()
            s.eat("]"); return d
        if t=="(":
            s.eat(); d={}
            while s.peek()!=")":
                k=s.val(); s.eat(":>"); d[k]=s.val()
                if s.peek()=="@@": s.eat()
            s.eat(")"); return d
        s.eat()
        if t[0]=='"': return t[1:-1]
        if t=="TRUE": return True
        if t=="FALSE": return False
        if re.fullmatch(r"-?\d+",t): return int(t)
        return t
def parse(s): 
    p=P(tokenize(s)); v=p.val(); assert p.i==len(p.t); return v
def parse_dump(path):
    """yield dict var->value for each state in a TLC -dump file"""
    cur=None; buf=[]
    def flush():
        if not buf: return None
        txt="\n".join(buf); parts=re.split(r'(?m)^/\\ ', txt)[1:]
        st={}
        for p in parts:
            name,rest=p.split("=",1); st[name.strip()]=parse(rest)
        return st
    for line in open(path):
        if line.startswith("State "):
            st=flush(); buf=[]
            if st: yield st
        elif line.strip(): buf.append(line.rstrip("\n"))
    st=flush()
    if st: yield st
