import itertools, math, random, sys, time
import numpy as np, lightworks as lw
from lightworks import emulator as emu
from fractions import Fraction as F
def detect_dist(state, eta, pd, pnr):
    """exact distribution of detector output for a given full state"""
    per_mode=[]
    for n in state:
        d={}
        for kept in range(n+1):
            pk=math.comb(n,kept)*eta**kept*(1-eta)**(n-kept)
            if pk==0: continue
            for dark in ([0,1] if pd>0 else [0]):
                pdk = pd if dark else 1-pd
                v=kept+dark
                if not pnr: v=min(v,1)
                d[v]=d.get(v,0)+pk*pdk
        per_mode.append(d)
    out={}
    for combo in itertools.product(*[list(d.items()) for d in per_mode]):
        s=tuple(v for v,_ in combo); p=math.prod(q for _,q in combo)
        out[s]=out.get(s,0)+p
    return out
def reference(pdist, heralds, eta, pd, pnr, ps, mind):
    acc={}
    for s,p in pdist.items():
        for o,q in detect_dist(tuple(s), eta,pd,pnr).items():
            if any(o[m]!=n for m,n in heralds.items()): continue
            u=tuple(v for i,v in enumerate(o) if i not in heralds)
            if not ps(lw.State(list(u))) or sum(u)<mind: continue
            acc[u]=acc.get(u,0)+p*q
    return acc
def ztest(counts, N, ref, zmax=7.0):
    worst=0; cell=None
    keys=set(ref)|set(counts)
    rest_p=0; rest_c=0
    for k in keys:
        p=ref.get(k,0); cnt=counts.get(k,0)
        if N*p<50: rest_p+=p; rest_c+=cnt; continue
        z=(cnt-N*p)/math.sqrt(N*p*(1-p))
        if abs(z)>worst: worst=abs(z); cell=k
    if rest_p>0:
        if N*rest_p>=50:
            z=(rest_c-N*rest_p)/math.sqrt(N*rest_p*(1-rest_p)); 
            if abs(z)>worst: worst=abs(z); cell="rest"
        elif rest_c > N*rest_p + 10*math.sqrt(N*rest_p+1)+10: worst=99; cell="rest-overflow"
    elif rest_c>0: worst=99; cell="impossible state"
    ptot=sum(ref.values()); ctot=sum(counts.values())
    z=(ctot-N*ptot)/math.sqrt(N*ptot*(1-ptot)) if 0<ptot<1 else (0 if ctot==round(N*ptot) else 99)
    return worst, cell, abs(z)
c=lw.Circuit(4); c.bs(0); c.bs(2); c.bs(1,reflectivity=0.3); c.ps(1,0.7); c.bs(0); c.loss(2,0.2); c.herald(1,3)
st=lw.State([1,1,0])
N=int(sys.argv[1]); seed=int(sys.argv[2])
for (eta,pd,pnr,mind) in [(1,0,True,0),(0.5,0,True,1),(0.8,0.25,True,2),(0.8,0.25,False,1),(1,0.1,False,0)]:
    det=emu.Detector(efficiency=eta,p_dark=pd,photon_counting=pnr)
    s=emu.Sampler(c,st,detector=det)
    ps=lambda x: x[0]<=1
    t0=time.time()
    res=s.sample_N_inputs(N,post_select=ps,min_detection=mind,seed=seed)
    t1=time.time()
    ref=reference({tuple(k.s):v for k,v in s.probability_distribution.items()}, c.heralds["output"], eta,pd,pnr,ps,mind)
    counts={tuple(k.s):v for k,v in res.items()}
    w,cell,za=ztest(counts,N,ref)
    print(f"eta={eta} pd={pd} pnr={pnr} min={mind}: cells={len(ref)} accepted={sum(counts.values())}/{N} exp={sum(ref.values()):.4f} worst|z|={w:.2f} at {cell} acc|z|={za:.2f} sample_time={t1-t0:.1f}s")
