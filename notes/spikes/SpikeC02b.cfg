CONSTANTS PNu = 3
MaxSteps = 3
SPECIFICATION Spec
INVARIANT Composition
INVARIANT Unitary
CHECK_DEADLOCK FALSE
