--------------------------- MODULE LwCircuitSpike ---------------------------
EXTENDS Ring, SequencesExt, FiniteSetsExt
\* ---------- lines: user line i = i ; ancilla j = 100 + j ----------
IsAnc(l) == l > 100
Anc(j) == 100 + j

\* ---------- value tables (ids -> ring values) ----------
PhaseTab == << One, Mul(RSqrtHalf, Add(One, I)), I, Mul(RSqrtHalf, Add(Neg(One), I)), Neg(One),
               Mul(RSqrtHalf, Add(Neg(One), Neg(I))), Neg(I), Mul(RSqrtHalf, Add(One, Neg(I))) >>  \* id p+1 = exp(i p pi/4)
ReflTab == << <<Zero, One>>, <<RSqrtHalf, RSqrtHalf>>, <<One, Zero>> >>      \* r = 0, 1/2, 1 : <<cos, sin>>

\* ---------- ops are uniform triples <<kind, lines, param>> ----------
OpBs(a,b,rid,cv) == <<"bs", <<a,b>>, <<rid,cv>>>>
OpPs(a,pid)      == <<"ps", <<a>>, pid>>
OpPerm(from,to)  == <<"perm", from, to>>        \* from[i] -> to[i]
OpGrp(ops)       == <<"grp", <<>>, ops>>

\* ---------- semantics ----------
Idx(c, l) == IF IsAnc(l) THEN c.nu + (l - 100) ELSE l
Dim(c) == c.nu + Len(c.anc)
Embed2(n, a, b, m11, m12, m21, m22) == [i \in 1..n |-> [j \in 1..n |->
      IF i=a /\ j=a THEN m11 ELSE IF i=a /\ j=b THEN m12 ELSE IF i=b /\ j=a THEN m21 ELSE IF i=b /\ j=b THEN m22
      ELSE IF i=j THEN One ELSE Zero]]
PermMat(n, from, to) == \* photon on index from[k] goes to index to[k]: M[to,from] = 1
   LET img(j) == IF \E k \in 1..Len(from) : from[k] = j THEN to[CHOOSE k \in 1..Len(from) : from[k] = j] ELSE j
   IN [i \in 1..n |-> [j \in 1..n |-> IF i = img(j) THEN One ELSE Zero]]
OpMat(c, op) ==
   LET n == Dim(c) IN
   IF op[1] = "bs" THEN
        LET a == Idx(c, op[2][1])  b == Idx(c, op[2][2])  r == ReflTab[op[3][1]] IN
        IF op[3][2] = "Rx" THEN Embed2(n, a, b, r[1], Mul(I, r[2]), Mul(I, r[2]), r[1])
        ELSE Embed2(n, a, b, r[1], r[2], r[2], Neg(r[1]))
   ELSE IF op[1] = "ps" THEN
        LET a == Idx(c, op[2][1]) IN [i \in 1..n |-> [j \in 1..n |-> IF i=j THEN (IF i=a THEN PhaseTab[op[3]] ELSE One) ELSE Zero]]
   ELSE \* perm
        PermMat(n, [k \in 1..Len(op[2]) |-> Idx(c, op[2][k])], [k \in 1..Len(op[3]) |-> Idx(c, op[3][k])])
RECURSIVE Flat(_)
Flat(ops) == IF ops = <<>> THEN <<>>
             ELSE IF Head(ops)[1] = "grp" THEN Flat(Head(ops)[3]) \o Flat(Tail(ops))
             ELSE <<Head(ops)>> \o Flat(Tail(ops))
Sem(c) == FoldLeft(LAMBDA U, o : MMul(OpMat(c, o), U, Dim(c)), Id(Dim(c)), Flat(c.ops))

\* ---------- constructors ----------
New(n) == [nu |-> n, anc |-> <<>>, hord |-> <<>>, ops |-> <<>>]
HIn(c)  == {c.hord[k][1] : k \in 1..Len(c.hord)}
HOut(c) == {c.hord[k][2] : k \in 1..Len(c.hord)}
SortedSeq(S) == SetToSortSeq(S, <)
\* rename a line of sub S through f (a function on S's lines)
RECURSIVE RenameOps(_,_)
RenameOps(ops, f) == IF ops = <<>> THEN <<>> ELSE
   LET o == Head(ops)
       ro == IF o[1] = "grp" THEN <<"grp", <<>>, RenameOps(o[3], f)>>
             ELSE IF o[1] = "perm" THEN <<"perm", [k \in 1..Len(o[2]) |-> f[o[2][k]]], [k \in 1..Len(o[3]) |-> f[o[3][k]]]>>
             ELSE <<o[1], [k \in 1..Len(o[2]) |-> f[o[2][k]]], o[3]>>
   IN <<ro>> \o RenameOps(Tail(ops), f)

AddOk(P, S, m) == m + (S.nu - Len(S.hord)) <= P.nu       \* m is 0-based API mode
AddResult(P, S, m, grp) ==
   LET freeIn  == SortedSeq((1..S.nu) \ HIn(S))
       freeOut == SortedSeq((1..S.nu) \ HOut(S))
       kOld == Len(P.anc)
       kS   == Len(S.anc)
       nh   == Len(S.hord)
       \* fresh ancillas: first S's own ancillas, then one per declared herald (declaration order)
       f == [l \in (1..S.nu) \cup {Anc(j) : j \in 1..kS} |->
               IF IsAnc(l) THEN Anc(kOld + (l - 100))
               ELSE IF l \in HIn(S) THEN Anc(kOld + kS + (CHOOSE k \in 1..nh : S.hord[k][1] = l))
               ELSE m + (CHOOSE t \in 1..Len(freeIn) : freeIn[t] = l)]
       outFrom == [t \in 1..Len(freeOut) |-> f[freeOut[t]]] \o [k \in 1..nh |-> f[S.hord[k][2]]]
       outTo   == [t \in 1..Len(freeOut) |-> m + t]         \o [k \in 1..nh |-> f[S.hord[k][1]]]
       newOps == RenameOps(S.ops, f) \o (IF outFrom = outTo THEN <<>> ELSE <<OpPerm(outFrom, outTo)>>)
   IN [P EXCEPT !.ops = @ \o (IF grp \/ nh + kS > 0 THEN <<OpGrp(newOps)>> ELSE newOps),
                !.anc = @ \o S.anc \o [k \in 1..nh |-> S.hord[k][3]]]
=============================================================================
