------------------------------ MODULE SpikeC02 ------------------------------
EXTENDS LwCircuitSpike
CONSTANTS PNu, MaxSteps
VARIABLES circ, prog
vars == <<circ, prog>>
\* object ids: 1 = parent, 2 = sub A (3 lines), 3 = sub B (2 lines)
TemplateOps(n) == [i \in 1..n |-> OpPs(i, i + 1)] \o [i \in 1..(n-1) |-> OpBs(i, i+1, 2, IF i % 2 = 1 THEN "Rx" ELSE "H")]
Init == /\ circ = << [New(PNu) EXCEPT !.ops = <<OpPs(1, 4)>> \o [i \in 1..(PNu-1) |-> OpBs(i, i+1, 2, "Rx")]],
                     [New(3) EXCEPT !.ops = TemplateOps(3)],
                     [New(2) EXCEPT !.ops = TemplateOps(2)] >>
        /\ prog = <<>>
Herald(o, n, i, out) ==
   /\ o \in {2,3}
   /\ Len(circ[o].hord) < circ[o].nu - 1
   /\ ~ \E k \in 1..Len(prog) : prog[k][1] = "add" /\ prog[k][2] = o      \* declare before use (scope choice)
   /\ i \notin HIn(circ[o]) /\ out \notin HOut(circ[o])
   /\ circ' = [circ EXCEPT ![o].hord = Append(@, <<i, out, n>>)]
   /\ prog' = Append(prog, <<"herald", o, n, i - 1, out - 1>>)
AddTo(p, s, m, grp) ==
   /\ p = 1 /\ s \in {2,3}
   /\ Cardinality({k \in 1..Len(prog) : prog[k][1] = "add" /\ prog[k][2] = s}) < 1
   /\ AddOk(circ[p], circ[s], m)
   /\ Len(circ[p].anc) + Len(circ[s].hord) <= 3
   /\ circ' = [circ EXCEPT ![p] = AddResult(circ[p], circ[s], m, grp)]
   /\ prog' = Append(prog, <<"add", s, m, grp>>)
Probe(m, ph) ==
   /\ \E k \in 1..Len(prog) : prog[k][1] = "add"
   /\ prog[Len(prog)][1] = "add"
   /\ circ' = [circ EXCEPT ![1].ops = Append(@, OpPs(m, ph))]
   /\ prog' = Append(prog, <<"ps", 1, m - 1, ph>>)
Next == /\ Len(prog) < MaxSteps
        /\ \/ \E o \in {2,3}, n \in {0,1}, i \in 1..3, out \in 1..3 : i <= circ[o].nu /\ out <= circ[o].nu /\ Herald(o, n, i, out)
           \/ \E s \in {2,3}, m \in 0..PNu, grp \in BOOLEAN : AddTo(1, s, m, grp)
           \/ \E m \in 1..PNu : Probe(m, 3)
Spec == Init /\ [][Next]_vars
Unitary == \A o \in 1..3 : IsUnitary(Sem(circ[o]), Dim(circ[o]))
ArgFrame == [][\A o \in {2,3} : (prog' # prog /\ prog'[Len(prog')][1] = "add") => circ'[o] = circ[o]]_vars
=============================================================================
