CONSTANTS N = 3
INIT Init
NEXT Next
INVARIANT Ok
