------------------------------ MODULE CacheSpike ------------------------------
EXTENDS Integers, Sequences, TLC
\* Abstract configuration of a QuickSampler / Sampler. Tokens are small integers.
CONSTANTS Kind,        \* "sampler" | "quick"
          Fixed        \* TRUE = model of the repaired code
VARIABLES u,      \* token of circuit.U_full (changes when circuit is edited / reassigned to a different unitary)
          h,      \* token of circuit.heralds
          inp,    \* input state token
          oth,    \* backend/source (sampler) or photon_counting (quick) token
          psid, pscontent,   \* post-selection object identity and rule content (quick only)
          snap,   \* snapshot the code stores, or <<>>
          dist, cont,        \* config key the cached distribution / continuous distribution were computed for, or <<>>
          used, failed, depth, op
vars == <<u,h,inp,oth,psid,pscontent,snap,dist,cont,used,failed,depth,op>>
Tok == 0..1
Key == <<u,h,inp,oth,pscontent>>                      \* what the distribution mathematically depends on
CodeSnap == IF Kind = "sampler" THEN (IF Fixed THEN <<u,h,inp,oth>> ELSE <<u,inp,oth>>)
            ELSE (IF Fixed THEN <<u,h,inp,psid,pscontent,oth>> ELSE <<u,inp,psid,oth>>)
Init == u=0 /\ h=0 /\ inp=0 /\ oth=0 /\ psid=0 /\ pscontent=0 /\ snap = <<>> /\ dist = <<>> /\ cont = <<>> /\ used = <<>> /\ failed=FALSE /\ depth=0 /\ op = "init"
Tick == depth' = depth + 1
Reconf == /\ \/ \E v \in Tok : u' = v /\ UNCHANGED <<h,inp,oth,psid,pscontent>>
             \/ \E v \in Tok : h' = v /\ UNCHANGED <<u,inp,oth,psid,pscontent>>
             \/ \E v \in Tok : inp' = v /\ UNCHANGED <<u,h,oth,psid,pscontent>>
             \/ \E v \in Tok : oth' = v /\ UNCHANGED <<u,h,inp,psid,pscontent>>
             \/ Kind = "quick" /\ \E v \in Tok : psid' = v /\ pscontent' = v /\ UNCHANGED <<u,h,inp,oth>>   \* assign a new object
             \/ Kind = "quick" /\ \E v \in Tok : pscontent' = v /\ UNCHANGED <<u,h,inp,oth,psid>>            \* mutate in place
          /\ UNCHANGED <<snap,dist,cont,used,failed>> /\ Tick /\ op' = "reconf"
Recompute == snap' = CodeSnap /\ dist' = Key /\ cont' = Key
ReadDist == /\ IF snap = <<>> \/ snap # CodeSnap THEN Recompute /\ used' = Key
                                                   ELSE UNCHANGED <<snap,dist,cont>> /\ used' = dist
            /\ failed' = FALSE /\ UNCHANGED <<u,h,inp,oth,psid,pscontent>> /\ Tick /\ op' = "read"
Sample ==   \* sample(): reads continuous_distribution
   /\ IF Kind = "sampler" \/ Fixed
      THEN IF snap = <<>> \/ snap # CodeSnap THEN Recompute /\ used' = Key /\ failed' = FALSE
           ELSE UNCHANGED <<snap,dist,cont>> /\ used' = cont /\ failed' = FALSE
      ELSE /\ UNCHANGED <<snap,dist,cont>>                \* QuickSampler.continuous_distribution: no re-check
           /\ IF cont = <<>> THEN failed' = TRUE /\ used' = used ELSE failed' = FALSE /\ used' = cont
   /\ UNCHANGED <<u,h,inp,oth,psid,pscontent>> /\ Tick /\ op' = "sample"
Next == depth < 5 /\ (Reconf \/ ReadDist \/ Sample)
Spec == Init /\ [][Next]_vars
Fresh == (used # <<>> => used = Key) /\ ~failed
\* Fresh is only meaningful right after a read; encode as action property:
FreshAfterRead == [][ op' \in {"read","sample"} => (used' = <<u',h',inp',oth',pscontent'>> /\ ~failed') ]_vars
=============================================================================
