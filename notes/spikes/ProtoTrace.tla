------------------------------ MODULE ProtoTrace ------------------------------
EXTENDS Ring, TraceData
CONSTANT N
VARIABLES tid, l, U
vars == <<tid,l,U>>
ReflTab == << <<One,Zero>>, <<Zero,One>>, <<RSqrtHalf,RSqrtHalf>> >>
PhaseTab == << One, I, Neg(One), Neg(I) >>
AsMat(s) == [i \in 1..N |-> [j \in 1..N |-> Norm(s[i][j])]]
Init == tid \in 1..Len(Traces) /\ l = 1 /\ U = Id(N)
Ev == Traces[tid][l]
Step == /\ l <= Len(Traces[tid])
        /\ \/ /\ Ev.op = "bs"
              /\ LET r == ReflTab[Ev.r] IN
                 U' = MMul(IF Ev.cv = "Rx" THEN BsRx(N,Ev.a,Ev.b,r[1],r[2]) ELSE BsH(N,Ev.a,Ev.b,r[1],r[2]), U, N)
           \/ /\ Ev.op = "ps"
              /\ U' = MMul(Ps(N,Ev.a,PhaseTab[Ev.ph]), U, N)
        /\ U' = AsMat(Ev.U)
        /\ l' = l + 1 /\ tid' = tid
Done == l > Len(Traces[tid]) /\ UNCHANGED vars
Next == Step \/ Done
=============================================================================
