#!/bin/bash
# usage: mutcamp.sh name file 'old' 'new'
name=$1; file=$2; old=$3; new=$4
rm -rf /tmp/exp/mut_$name && cp -r /tmp/exp/fix /tmp/exp/mut_$name && rm -rf /tmp/exp/mut_$name/tests && cp -r /repo/tests /tmp/exp/mut_$name/tests
/venv/bin/python - "$file" "$old" "$new" "/tmp/exp/mut_$name" <<'PY'
import sys
p=sys.argv[4]+"/"+sys.argv[1]; s=open(p).read()
assert s.count(sys.argv[2])>=1, "pattern not found"
open(p,"w").write(s.replace(sys.argv[2],sys.argv[3],1))
PY
cd /tmp/exp/mut_$name && t=$(PYTHONPATH=/tmp/exp/mut_$name timeout 900 /venv/bin/python -m pytest -q -p no:cacheprovider tests/sdk 2>&1 | tail -1)
cd /tmp/spike && r=$(PYTHONPATH=/tmp/exp/mut_$name timeout 900 /venv/bin/python replay.py st.dump 3 0.02 2>&1 | grep -v "^    " | tr '\n' ';')
echo "$name | tests: $t | replay: $r"
