------------------------------ MODULE ConvSpike ------------------------------
EXTENDS Integers, Sequences, FiniteSets, TLC
CONSTANTS NQ, MaxGates, FixedRule
Q == 0..(NQ-1)
Gates2 == { {a,b} : a \in Q, b \in Q } \ { {a} : a \in Q }
Gates3 == { {a,a+1,a+2} : a \in 0..(NQ-3) }
GateSet == Gates2 \cup Gates3
VARIABLES phase, gates, ps, pc, cnt, leaked, refused
vars == <<phase, gates, ps, pc, cnt, leaked, refused>>
\* --- the code's backward pass (post_selection_analyzer), transcribed ---
RECURSIVE Back(_,_,_)
Back(gs, i, has) ==   \* returns sequence of booleans for gates i..1 appended in forward order
  IF i = 0 THEN <<>>
  ELSE LET g == gs[i]
           fresh == {q \in g : q \notin has}
           can == IF FixedRule THEN Cardinality(fresh) >= Cardinality(g) - 1
                  ELSE fresh # {}              \* not all(q in has_ps for q in gate)
       IN Back(gs, i-1, has \cup g) \o <<can>>
Analyze(gs) == Back(gs, Len(gs), {})
Init == phase = "build" /\ gates = <<>> /\ ps = <<>> /\ pc = 1 /\ cnt = [q \in Q |-> 1] /\ leaked = FALSE /\ refused = FALSE
AddGate == /\ phase = "build" /\ Len(gates) < MaxGates
           /\ \E g \in GateSet : gates' = Append(gates, g)
           /\ UNCHANGED <<phase, ps, pc, cnt, leaked, refused>>
Convert == /\ phase = "build" /\ gates # <<>>
           /\ ps' = Analyze(gates)
           /\ refused' = \E i \in 1..Len(gates) : Cardinality(gates[i]) = 3 /\ ~ps'[i]
           /\ phase' = IF refused' THEN "done" ELSE "run"
           /\ UNCHANGED <<gates, pc, cnt, leaked>>
Logical(c, g) == \A q \in g : c[q] = 1
Redistributions(c, g) == { d \in [g -> 0..Cardinality(g)] :
       LET S(f) == IF Cardinality(g) = 2 THEN LET a == CHOOSE x \in g : TRUE  b == CHOOSE y \in g : y # a IN f[a] + f[b]
                   ELSE LET a == CHOOSE x \in g : TRUE  b == CHOOSE y \in g : y # a  cc == CHOOSE z \in g : z # a /\ z # b IN f[a]+f[b]+f[cc]
       IN S(d) = S([q \in g |-> c[q]]) }
RunGate == /\ phase = "run" /\ pc <= Len(gates)
           /\ LET g == gates[pc] IN
                \/ /\ ~ps[pc] /\ Logical(cnt, g) /\ cnt' = cnt                 \* heralded gate on logical input: logical output
                \/ /\ (ps[pc] \/ ~Logical(cnt, g))                              \* post-selected gate, or garbage in: anything photon-conserving
                   /\ \E d \in Redistributions(cnt, g) : cnt' = [q \in Q |-> IF q \in g THEN d[q] ELSE cnt[q]]
           /\ leaked' = (leaked \/ \E q \in Q : cnt'[q] # 1)
           /\ pc' = pc + 1
           /\ UNCHANGED <<phase, gates, ps, refused>>
Finish == /\ phase = "run" /\ pc > Len(gates) /\ phase' = "done" /\ UNCHANGED <<gates, ps, pc, cnt, leaked, refused>>
Next == AddGate \/ Convert \/ RunGate \/ Finish
Spec == Init /\ [][Next]_vars
RuleQubits == UNION {gates[i] : i \in 1..Len(gates)}
Accepted == phase = "done" /\ ~refused /\ \A q \in RuleQubits : cnt[q] = 1
Safe == Accepted => ~leaked
=============================================================================
