------------------------------ MODULE ProtoTrace2 ------------------------------
EXTENDS Ring, TraceData
CONSTANT N
VARIABLES tid, l, U, bad
vars == <<tid,l,U,bad>>
ReflTab == << <<One,Zero>>, <<Zero,One>>, <<RSqrtHalf,RSqrtHalf>> >>
PhaseTab == << One, I, Neg(One), Neg(I) >>
AsMat(s) == [i \in 1..N |-> [j \in 1..N |-> Norm(s[i][j])]]
Init == tid \in 1..Len(Traces) /\ l = 1 /\ U = Id(N) /\ bad = {}
Ev == Traces[tid][l]
Expected == IF Ev.op = "bs"
            THEN LET r == ReflTab[Ev.r] IN MMul(IF Ev.cv = "Rx" THEN BsRx(N,Ev.a,Ev.b,r[1],r[2]) ELSE BsH(N,Ev.a,Ev.b,r[1],r[2]), U, N)
            ELSE MMul(Ps(N,Ev.a,PhaseTab[Ev.ph]), U, N)
Step == /\ l <= Len(Traces[tid])
        /\ bad' = IF Expected = AsMat(Ev.U) THEN {} ELSE {"U_full"}
        /\ U' = AsMat(Ev.U)          \* resync on the logged value
        /\ l' = l + 1 /\ tid' = tid
Done == l > Len(Traces[tid]) /\ UNCHANGED vars
Next == Step \/ Done
Ok == bad = {}
=============================================================================
