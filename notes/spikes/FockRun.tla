------------------------------ MODULE FockRun ------------------------------
EXTENDS FockSpike
CONSTANT N, MaxLen, NPh
VARIABLES prog, U
Refl == { <<One,Zero>>, <<Zero,One>>, <<RSqrtHalf,RSqrtHalf>> }
Phases == { One, I, Mul(RSqrtHalf, Add(One,I)) }
Init == prog = <<>> /\ U = Id(N)
AddBs == \E a \in 1..N, b \in 1..N, r \in Refl, cv \in {"Rx","H"} :
            /\ a # b
            /\ prog' = Append(prog, <<"bs",a,b,r,cv>>)
            /\ U' = MMul(IF cv = "Rx" THEN BsRx(N,a,b,r[1],r[2]) ELSE BsH(N,a,b,r[1],r[2]), U, N)
AddPs == \E a \in 1..N, ph \in Phases :
            /\ prog' = Append(prog, <<"ps",a,ph>>)
            /\ U' = MMul(Ps(N,a,ph), U, N)
Next == Len(prog) < MaxLen /\ (AddBs \/ AddPs)
Spec == Init /\ [][Next]_<<prog,U>>
AllNormalised == \A ins \in FockBasis(N, NPh) : Normalised(U, ins, N, NPh)
=============================================================================
