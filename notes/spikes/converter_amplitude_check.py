import numpy as np, lightworks as lw, itertools
from lightworks import emulator as emu, qubit
from qiskit import QuantumCircuit
from qiskit.quantum_info import Operator

def check(qc, allow_ps):
    nq = qc.num_qubits
    circ, ps = qubit.qiskit_converter(qc, allow_post_selection=allow_ps)
    sim = emu.Simulator(circ)
    basis = list(itertools.product([0,1], repeat=nq))
    def st(bits): 
        s=[]
        for b in bits: s += [1,0] if b==0 else [0,1]
        return lw.State(s)
    ins = [st(b) for b in basis]
    res = sim.simulate(ins)   # all outputs
    # accepted outputs: post-selection (if any) 
    M = np.zeros((2**nq,2**nq),dtype=complex)
    leak = 0
    for i,b in enumerate(basis):
        for j,o in enumerate(res.outputs):
            a = res.array[i,j]
            if ps is not None and not ps.validate(o): continue
            # is o logical?
            pairs=[tuple(o[2*k:2*k+2].s) for k in range(nq)]
            if all(p in [(1,0),(0,1)] for p in pairs):
                bits = tuple(0 if p==(1,0) else 1 for p in pairs)
                M[basis.index(bits), i] = a
            else:
                leak = max(leak, abs(a))
    # qiskit ordering: little endian; qubit 0 is least significant
    U = Operator(qc).data
    # convert M index (q0 first = most significant in our basis enumeration) to qiskit's
    def idx(bits): return sum(b<<k for k,b in enumerate(bits))
    Mq = np.zeros_like(M)
    for i,bi in enumerate(basis):
        for j,bj in enumerate(basis):
            Mq[idx(bi), idx(bj)] = M[i,j]
    # scalar
    k = np.argmax(abs(U)); sc = Mq.flat[k]/U.flat[k]
    err = abs(Mq - sc*U).max()
    return abs(sc)**2, err, leak

qc = QuantumCircuit(3); qc.h(0); qc.h(1); qc.h(2); qc.ccx(0,1,2); qc.cx(0,1)
print("ccx;cx(0,1) ps:", check(qc, True))
qc = QuantumCircuit(3); qc.h(0); qc.h(1); qc.h(2); qc.ccz(0,1,2); qc.cz(0,1)
print("ccz;cz(0,1) ps:", check(qc, True))
qc = QuantumCircuit(3); qc.h(0); qc.cx(0,1); qc.cx(1,2)
print("cx01;cx12 ps:", check(qc, True))
qc = QuantumCircuit(2); qc.h(0); qc.cx(0,1); qc.cx(1,0); qc.t(0); qc.cx(0,1)
print("cx cx cx ps:", check(qc, True), check(qc, False))
