CONSTANTS PNu = 3
MaxSteps = 5
SPECIFICATION Spec
INVARIANT Unitary
PROPERTY ArgFrame
CHECK_DEADLOCK FALSE
