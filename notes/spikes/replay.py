import sys, math, itertools, random, time
import numpy as np
import lightworks as lw
from tlaval import parse_dump
PH = lambda pid: (pid-1)*math.pi/4
REFL = {1:0.0, 2:0.5, 3:1.0}
def template(n):
    c = lw.Circuit(n)
    for i in range(1,n+1): c.ps(i-1, PH(i+1))
    for i in range(1,n): c.bs(i-1, i, reflectivity=0.5, convention="Rx" if i%2==1 else "H")
    return c
def parent(n):
    c = lw.Circuit(n); c.ps(0, PH(4))
    for i in range(1,n): c.bs(i-1,i,reflectivity=0.5)
    return c
def flat(ops):
    out=[]
    for o in ops:
        if o[0]=="grp": out+=flat(o[2])
        else: out.append(o)
    return out
def sem(c):
    nu=c["nu"]; k=len(c["anc"]); n=nu+k
    idx=lambda l: nu+(l-100) - 1 if l>100 else l-1
    U=np.eye(n,dtype=complex)
    for kind,lines,par in flat(c["ops"]):
        M=np.eye(n,dtype=complex)
        if kind=="bs":
            a,b=idx(lines[0]),idx(lines[1]); r=REFL[par[0]]; cs,sn=math.sqrt(r),math.sqrt(1-r)
            if par[1]=="Rx": M[a,a]=cs;M[a,b]=1j*sn;M[b,a]=1j*sn;M[b,b]=cs
            else: M[a,a]=cs;M[a,b]=sn;M[b,a]=sn;M[b,b]=-cs
        elif kind=="ps":
            a=idx(lines[0]); M[a,a]=np.exp(1j*PH(par))
        elif kind=="perm":
            M=np.zeros((n,n),dtype=complex); img={j:j for j in range(n)}
            for f,t in zip(lines,par): img[idx(f)]=idx(t)
            for j,i in img.items(): M[i,j]=1
        U=M@U
    return U
def conforms(impl, c):
    """impl: lw.Circuit ; c: spec record for the same object"""
    nu=c["nu"]; anc=list(c["anc"]); k=len(anc)
    if impl.n_modes != nu+k: return "n_modes %d != %d"%(impl.n_modes, nu+k)
    internal=list(impl._internal_modes)
    if len(internal)!=k: return "ancilla count"
    users=[p for p in range(impl.n_modes) if p not in internal]
    hin=impl.heralds["input"]; hout=impl.heralds["output"]
    if sorted(hin)!=sorted(internal) or sorted(hout)!=sorted(internal): return "herald keys %s %s vs internal %s"%(hin,hout,internal)
    V=impl.U_full; S=sem(c)
    for perm in itertools.permutations(range(k)):
        if any(hin[internal[perm[j]]]!=anc[j] or hout[internal[perm[j]]]!=anc[j] for j in range(k)): continue
        order=users+[internal[perm[j]] for j in range(k)]
        if np.abs(V[np.ix_(order,order)]-S).max()<1e-9: return None
    return "U_full mismatch (no ancilla bijection)"
def replay(st):
    objs={1:parent(3),2:template(3),3:template(2)}
    snap=lambda c:(c.n_modes, c.heralds, c.U_full.tobytes())
    for ev in st["prog"]:
        if ev[0]=="herald": objs[ev[1]].herald(ev[2],ev[3],ev[4])
        elif ev[0]=="add":
            before=snap(objs[ev[1]])
            objs[1].add(objs[ev[1]], ev[2], group=ev[3])
            if snap(objs[ev[1]])!=before: return "argument mutated (C08)"
        elif ev[0]=="ps": objs[1].ps(ev[2], PH(ev[3]))
    return conforms(objs[1], st["circ"][0])
if __name__=="__main__":
    rng=random.Random(int(sys.argv[2])); frac=float(sys.argv[3])
    t0=time.time(); n=0; bad={}; ex=[]
    for st in parse_dump(sys.argv[1]):
        if not any(e[0]=="add" for e in st["prog"]): continue
        if rng.random()>frac: continue
        n+=1
        try: r=replay(st)
        except Exception as e: r="EXC %s %s"%(type(e).__name__,e)
        if r:
            bad.setdefault(r.split("(")[0][:40],[]).append(st["prog"])
    print("replayed",n,"in %.1fs"%(time.time()-t0))
    for k,v in bad.items():
        print(k,len(v)); 
        for p in sorted(v,key=len)[:2]: print("   ",p)
