"""Reference for C06: mixture over independent per-photon emission outcomes of product of per-group boson sampling distributions."""
import itertools, math, random, sys
import numpy as np, lightworks as lw
from lightworks import emulator as emu
from lightworks.emulator.utils import fock_basis
from thewalrus import perm
def p1_from_purity(purity):
    if purity>=1: return 1.0
    g2=1-purity; b=2*(1-1/g2); return 1-(-b-(b*b-4)**0.5)/2
def outcomes(nu,pur,ind):
    p1=p1_from_purity(pur); p2=1-p1; pi=ind**0.5; pd=1-pi
    # (intended photon: None|'I'|'D', noise photon: bool), prob
    return [((None,False), 1-nu*(p1+p2*nu+2*(1-nu)*p2)),
            (('I',False), pi*nu*(p1+(1-nu)*p2)),
            (('D',False), pd*nu*(p1+(1-nu)*p2)),
            ((None,True), nu*(1-nu)*p2),
            (('I',True), nu*nu*pi*p2),
            (('D',True), nu*nu*pd*p2)]
def group_dist(U, n, loss, occ):
    """distribution over patterns on first n modes for input occ (len n)"""
    N=U.shape[0]; full=list(occ)+[0]*loss; tot=sum(full); d={}
    if tot==0: return {tuple([0]*n):1.0}
    for o in fock_basis(N,tot):
        x=[];y=[]
        for i in range(N): x+=[i]*o[i]; y+=[i]*full[i]
        a=perm(U[np.ix_(x,y)])/math.sqrt(math.prod(math.factorial(k) for k in o)*math.prod(math.factorial(k) for k in full))
        d[tuple(o[:n])]=d.get(tuple(o[:n]),0)+abs(a)**2
    return d
def conv(d1,d2):
    out={}
    for a,p in d1.items():
        for b,q in d2.items():
            k=tuple(x+y for x,y in zip(a,b)); out[k]=out.get(k,0)+p*q
    return out
def reference(c, ins, nu, pur, ind):
    U=c.U_full; n=c.n_modes; L=U.shape[0]-n
    hin=c.heralds["input"]; full=[]; it=iter(ins)
    for i in range(n): full.append(hin[i] if i in hin else next(it))
    photons=[m for m in range(n) for _ in range(full[m])]
    oc=[o for o in outcomes(nu,pur,ind) if o[1]>0]
    total={}
    cache={}
    for combo in itertools.product(oc, repeat=len(photons)):
        w=math.prod(o[1] for o in combo)
        indis=[0]*n; singles=[]
        for m,(o,_) in zip(photons,combo):
            if o[0]=='I': indis[m]+=1
            elif o[0]=='D': singles.append(m)
            if o[1]: singles.append(m)
        key=(tuple(indis),tuple(sorted(singles)))
        if key not in cache:
            d=group_dist(U,n,L,indis)
            for m in singles:
                e=[0]*n; e[m]=1; d=conv(d, group_dist(U,n,L,e))
            cache[key]=d
        for k,p in cache[key].items(): total[k]=total.get(k,0)+w*p
    return total
bad=0
rng=random.Random(int(sys.argv[1]))
for it in range(int(sys.argv[2])):
    n=rng.choice([2,3])
    c=lw.Circuit(n); c.add(lw.Unitary(lw.random_unitary(n,seed=rng.randrange(10**6))))
    if rng.random()<0.4:
        c.loss(rng.randrange(n), rng.uniform(0.1,0.6)); c.add(lw.Unitary(lw.random_unitary(n,seed=rng.randrange(10**6))))
    if rng.random()<0.3 and n==3: c.herald(rng.choice([0,1]), rng.randrange(n))
    k=c.input_modes; ins=[0]*k
    for _ in range(rng.choice([1,2,2,3])): ins[rng.randrange(k)]+=1
    nu=rng.choice([1,0.5,rng.uniform(0.2,1)]); pur=rng.choice([1,0.625,rng.uniform(0.55,1)]); ind=rng.choice([1,0,0.25,rng.random()])
    ref=reference(c,ins,nu,pur,ind)
    for be in ["permanent","slos"]:
        pd=emu.Sampler(c,lw.State(ins),source=emu.Source(purity=pur,brightness=nu,indistinguishability=ind),backend=be).probability_distribution
        keys=set(ref)|{tuple(s.s) for s in pd}
        err=max(abs(ref.get(kk,0)-pd.get(lw.State(list(kk)),0)) for kk in keys)
        if err>1e-7:
            bad+=1; print("MISMATCH",be,ins,nu,pur,ind,err,c.U_full.shape,c.heralds)
print("bad",bad)
