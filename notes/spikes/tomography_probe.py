import numpy as np, lightworks as lw, warnings
from lightworks import emulator as emu, qubit
from lightworks.tomography import LIProcessTomography, MLEProcessTomography, GateFidelity, StateTomography, choi_from_unitary
def experiment(circuits, inputs):
    res=[]
    for c,i in zip(circuits, inputs):
        s = emu.Sampler(c, i)
        pd = s.probability_distribution
        res.append({k: v for k,v in pd.items()})
    return res
def run(name, gate, V):
    li = LIProcessTomography(1, gate, experiment); ch = li.process()
    ref = choi_from_unitary(V)
    print(name, "LI max|choi-ref|", abs(ch-ref).max(), "LI fid", li.fidelity(ref))
    with warnings.catch_warnings():
        warnings.simplefilter("ignore")
        ml = MLEProcessTomography(1, gate, experiment); cm = ml.process()
    print(name, "MLE fid", ml.fidelity(ref), "trace", np.trace(cm).real, "mineig", np.linalg.eigvalsh(cm).min())
    print(name, "MLE vs maximally mixed:", abs(cm - np.eye(4)/2).max())
    gf = GateFidelity(1, gate, experiment)
    print(name, "gate fid (target=V)", gf.process(V))
th=0.7
run("H", qubit.H(), np.array([[1,1],[1,-1]])/2**.5)
run("S", qubit.S(), np.array([[1,0],[0,1j]]))
run("Ry", qubit.Ry(th), np.array([[np.cos(th/2),-np.sin(th/2)],[np.sin(th/2),np.cos(th/2)]]))
run("T", qubit.T(), np.array([[1,0],[0,np.exp(1j*np.pi/4)]]))
