------------------------------ MODULE Ring ------------------------------
EXTENDS Integers, Sequences, FiniteSets, TLC
\* element <<a,b,c,d,k>> == (a + b*s + c*i + d*i*s) / 2^k , s = sqrt 2
Even(x) == x % 2 = 0
RECURSIVE Norm(_)
Norm(x) == IF x[5] > 0 /\ Even(x[1]) /\ Even(x[2]) /\ Even(x[3]) /\ Even(x[4])
           THEN Norm(<<x[1] \div 2, x[2] \div 2, x[3] \div 2, x[4] \div 2, x[5]-1>>)
           ELSE IF x[1]=0 /\ x[2]=0 /\ x[3]=0 /\ x[4]=0 THEN <<0,0,0,0,0>> ELSE x
Zero == <<0,0,0,0,0>>
One  == <<1,0,0,0,0>>
I    == <<0,0,1,0,0>>
RSqrtHalf == <<0,1,0,0,1>>   \* 1/sqrt2
Pow2(n) == IF n = 0 THEN 1 ELSE IF n = 1 THEN 2 ELSE IF n = 2 THEN 4 ELSE IF n=3 THEN 8 ELSE IF n=4 THEN 16 ELSE IF n=5 THEN 32 ELSE IF n=6 THEN 64 ELSE IF n=7 THEN 128 ELSE 256
Scale(x, k) == LET f == Pow2(k - x[5]) IN <<x[1]*f, x[2]*f, x[3]*f, x[4]*f, k>>
Add(x, y) == LET k == IF x[5] > y[5] THEN x[5] ELSE y[5]
                 xx == Scale(x,k) yy == Scale(y,k)
             IN Norm(<<xx[1]+yy[1], xx[2]+yy[2], xx[3]+yy[3], xx[4]+yy[4], k>>)
Mul(x, y) == Norm(<< x[1]*y[1] + 2*x[2]*y[2] - x[3]*y[3] - 2*x[4]*y[4],
                     x[1]*y[2] + x[2]*y[1] - x[3]*y[4] - x[4]*y[3],
                     x[1]*y[3] + x[3]*y[1] + 2*x[2]*y[4] + 2*x[4]*y[2],
                     x[1]*y[4] + x[4]*y[1] + x[2]*y[3] + x[3]*y[2],
                     x[5]+y[5] >>)
Neg(x) == <<-x[1],-x[2],-x[3],-x[4],x[5]>>
Conj(x) == <<x[1],x[2],-x[3],-x[4],x[5]>>
\* matrices: functions [1..n -> [1..n -> elt]]
Id(n) == TLCEval([i \in 1..n |-> [j \in 1..n |-> IF i=j THEN One ELSE Zero]])
RECURSIVE SumTo(_,_)
SumTo(f, n) == IF n = 0 THEN Zero ELSE Add(SumTo(f, n-1), f[n])
MMul(A, B, n) == TLCEval([i \in 1..n |-> [j \in 1..n |-> SumTo([k \in 1..n |-> Mul(A[i][k], B[k][j])], n)]])
Dag(A, n) == TLCEval([i \in 1..n |-> [j \in 1..n |-> Conj(A[j][i])]])
IsUnitary(A, n) == MMul(Dag(A,n), A, n) = Id(n)
\* components
BsRx(n, a, b, c, s) == [i \in 1..n |-> [j \in 1..n |->
      IF i=a /\ j=a THEN c ELSE IF i=a /\ j=b THEN Mul(I,s) ELSE IF i=b /\ j=a THEN Mul(I,s) ELSE IF i=b /\ j=b THEN c
      ELSE IF i=j THEN One ELSE Zero]]
BsH(n, a, b, c, s) == [i \in 1..n |-> [j \in 1..n |->
      IF i=a /\ j=a THEN c ELSE IF i=a /\ j=b THEN s ELSE IF i=b /\ j=a THEN s ELSE IF i=b /\ j=b THEN Neg(c)
      ELSE IF i=j THEN One ELSE Zero]]
Ps(n, a, ph) == [i \in 1..n |-> [j \in 1..n |-> IF i=j THEN (IF i=a THEN ph ELSE One) ELSE Zero]]
=============================================================================
