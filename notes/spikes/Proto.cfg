CONSTANTS N = 3
MaxLen = 1
INIT Init
NEXT Next
INVARIANT Unitary
CHECK_DEADLOCK FALSE
