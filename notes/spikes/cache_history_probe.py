import random, numpy as np, lightworks as lw, sys
from lightworks import emulator as emu
def mkcirc(rng, p):
    n=3
    c=lw.Circuit(n); c.bs(0, reflectivity=p); c.ps(1, rng.choice([0.3,1.2])); c.bs(1)
    if rng.random()<0.5: c.loss(rng.randrange(n), rng.choice([0.2,0.5]))
    if rng.random()<0.5: c.herald(rng.choice([0,1]), rng.randrange(n))
    return c
def dist_eq(a,b):
    ks=set(a)|set(b)
    return all(abs(a.get(k,0)-b.get(k,0))<1e-9 for k in ks)
bad=0
for seed in range(int(sys.argv[1]), int(sys.argv[2])):
    rng=random.Random(seed)
    p=lw.Parameter(0.5)
    c=mkcirc(rng,p)
    def inp(c): 
        k=c.input_modes; s=[0]*k; s[rng.randrange(k)]+=1; s[rng.randrange(k)]+=1; return lw.State(s)
    kind=rng.choice(["S","Q"])
    st=inp(c)
    src=emu.Source()
    obj = emu.Sampler(c,st,source=src) if kind=="S" else emu.QuickSampler(c,st)
    hist=[]
    for step in range(12):
        a=rng.choice(["param","newcirc","edit","input","src","backend","read","sample","sampleN","pnr","herald"])
        hist.append(a)
        try:
            if a=="param": p.set(rng.choice([0.2,0.5,0.9]))
            elif a=="newcirc":
                c=mkcirc(rng,p); obj.circuit=c
                try: obj.input_state=inp(c)
                except Exception: pass
            elif a=="edit": c.ps(0, rng.choice([0.4,2.0]))
            elif a=="herald":
                um=[m for m in range(c.n_modes) if m not in c.heralds["input"]]
                if len(um)>1:
                    c.herald(rng.choice([0,1]), rng.choice(um))
                    try: obj.input_state=inp(c)
                    except Exception: pass
            elif a=="input":
                try: obj.input_state=inp(obj.circuit)
                except Exception: pass
            elif a=="src" and kind=="S":
                f=rng.choice(["brightness","indistinguishability","purity"]); setattr(src,f,rng.choice([1,0.8,0.9]))
            elif a=="backend" and kind=="S": obj.backend=rng.choice(["permanent","slos"])
            elif a=="pnr" and kind=="Q": obj.photon_counting=rng.random()<0.5
            elif a in("read","sample","sampleN"):
                # fresh object
                try:
                    fresh = emu.Sampler(obj.circuit,obj.input_state,source=emu.Source(purity=src.purity,brightness=src.brightness,indistinguishability=src.indistinguishability),backend=obj.backend.backend) if kind=="S" else emu.QuickSampler(obj.circuit,obj.input_state,photon_counting=obj.photon_counting)
                    fd=dict(fresh.probability_distribution); fexc=None
                except Exception as e: fd=None; fexc=e
                try:
                    if a=="read": od=dict(obj.probability_distribution)
                    elif a=="sample":
                        obj.sample(); od=dict(obj.probability_distribution)
                    else:
                        r1=obj.sample_N_outputs(50,seed=3); od=dict(obj.probability_distribution)
                        if fd is not None:
                            r2=fresh.sample_N_outputs(50,seed=3)
                            if dict(r1)!=dict(r2): print(seed,kind,"sampleN differs",hist); bad+=1
                    oexc=None
                except Exception as e: od=None; oexc=e
                if (fd is None)!=(od is None): print(seed,kind,"exc mismatch",hist,repr(fexc),repr(oexc)); bad+=1; break
                if fd is not None and not dist_eq(fd,od): print(seed,kind,"STALE",hist); bad+=1; break
        except Exception as e:
            print(seed,kind,"driver exc",a,repr(e)); break
print("bad",bad)
