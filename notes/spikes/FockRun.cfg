CONSTANTS N = 3
MaxLen = 2
NPh = 3
SPECIFICATION Spec
INVARIANT AllNormalised
CHECK_DEADLOCK FALSE
