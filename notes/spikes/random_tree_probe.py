import sys, random, math, itertools
import numpy as np
import lightworks as lw
from lightworks import emulator as emu
from ref import Ref
from lightworks.emulator.utils import fock_basis

def rand_leaf(rng, n, log):
    c = lw.Circuit(n); r = Ref(n)
    for _ in range(rng.randint(1,3)):
        k = rng.choice(["bs","ps","swap"] if n>1 else ["ps"])
        if k=="bs":
            a,b = rng.sample(range(n),2); refl = rng.choice([0.3,0.5,0.8]); conv=rng.choice(["Rx","H"])
            c.bs(a,b,reflectivity=refl,convention=conv); r.bs(a,b,refl,conv); log.append(("bs",a,b,refl,conv))
        elif k=="ps":
            a = rng.randrange(n); phi = rng.choice([0.4,1.1,2.5]); c.ps(a,phi); r.ps(a,phi); log.append(("ps",a,phi))
        else:
            p = list(range(n)); rng.shuffle(p); d={i:p[i] for i in range(n) if p[i]!=i}
            if d: c.mode_swaps(d); r.swaps(d); log.append(("swaps",d))
    return c, r

def add_heralds(rng, c, r, log, maxh=2):
    nuser = len(r.user)
    free_in = [i for i in range(nuser) if r.user[i] not in r.hin]
    free_out = [i for i in range(nuser) if r.user[i] not in r.hout]
    nh = rng.randint(0, min(maxh, len(free_in)-1))
    for _ in range(nh):
        i = rng.choice(free_in); free_in.remove(i)
        o = i if (rng.random()<0.5 and i in free_out) else rng.choice(free_out); free_out.remove(o)
        n = rng.choice([0,0,1])
        c.herald(n,i,o); r.herald(n,i,o); log.append(("herald",n,i,o))

def build(rng, depth, log):
    n = rng.randint(2,4)
    c, r = rand_leaf(rng, n, log)
    if depth>0:
        for _ in range(rng.randint(1,2)):
            log.append("SUB{")
            sc, sr = build(rng, depth-1, log)
            log.append("}")
            k = sc.input_modes
            if k > len(r.user) : continue
            if k == 0: continue
            m = rng.randint(0, len(r.user)-k)
            grp = rng.random()<0.5
            log.append(("add", m, grp))
            c.add(sc, m, group=grp); r.add(sr, m)
            if rng.random()<0.5:
                c2, r2 = None, None
                a,b = rng.sample(range(len(r.user)),2) if len(r.user)>1 else (0,0)
                if a!=b:
                    c.bs(a,b); r.bs(a,b,0.5,"Rx"); log.append(("bs",a,b,0.5,"Rx"))
    add_heralds(rng, c, r, log)
    return c, r

def compare(c, r):
    nin = c.input_modes
    sim = emu.Simulator(c)
    worst = 0
    for nph in [1,2]:
        ins = [lw.State(s) for s in fock_basis(nin, nph)]
        res = sim.simulate(ins)
        for i, s in enumerate(res.inputs):
            for j, o in enumerate(res.outputs):
                a = res.array[i,j]; b = r.amp(s.s, o.s)
                worst = max(worst, abs(a-b))
    return worst


import os
DEPTH=int(os.environ.get("DEPTH","2"))
bad = 0
for seed in range(int(sys.argv[1]), int(sys.argv[2])):
    rng = random.Random(seed); log=[]
    try:
        c, r = build(rng, DEPTH, log)
    except Exception as e:
        print(seed, "BUILD EXC", type(e).__name__, e); print(log); bad+=1; continue
    if c.input_modes < 1: continue
    try:
        w = compare(c, r)
    except Exception as e:
        print(seed, "CMP EXC", type(e).__name__, e); print(log); bad+=1; continue
    if w > 1e-9:
        bad += 1
        print(seed, "MISMATCH", w); print(log)
print("bad", bad)
