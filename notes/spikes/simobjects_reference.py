import numpy as np, lightworks as lw, itertools, random, math
from lightworks import emulator as emu
from lightworks.emulator.utils import fock_basis
from thewalrus import perm
# C05 probe: consistency among objects on random circuits with heralds (0-photon to avoid F6) + loss + post-selection
def ref_sampler(c, ins):
    """exact sampler dist from U_full + heralds, marginalised over loss"""
    U=c.U_full; N=U.shape[0]; n=c.n_modes; L=N-n
    hin=c.heralds["input"]; 
    full=[]; it=iter(ins)
    for i in range(n): full.append(hin[i] if i in hin else next(it))
    full += [0]*L
    tot=sum(full); d={}
    if tot==0: return {tuple([0]*n):1.0}
    for o in fock_basis(N,tot):
        x=[];y=[]
        for i in range(N): x+=[i]*o[i]; y+=[i]*full[i]
        a=perm(U[np.ix_(x,y)])/math.sqrt(math.prod(math.factorial(k) for k in o)*math.prod(math.factorial(k) for k in full))
        p=abs(a)**2
        if p>1e-12: d[tuple(o[:n])]=d.get(tuple(o[:n]),0)+p
    return d
bad=0
for seed in range(120):
    rng=random.Random(seed)
    n=rng.randint(3,4)
    c=lw.Circuit(n); c.add(lw.Unitary(lw.random_unitary(n,seed=seed)))
    lossy = rng.random()<0.5
    if lossy:
        for m in rng.sample(range(n),2): c.loss(m, rng.uniform(0.05,0.4))
        c.add(lw.Unitary(lw.random_unitary(n,seed=seed+500)))
    nh=rng.randint(0,1)
    hm=rng.sample(range(n),nh)
    for m in hm: c.herald(0,m)
    k=c.input_modes
    ins=[0]*k
    for _ in range(2): ins[rng.randrange(k)]+=1
    st=lw.State(ins)
    ref=ref_sampler(c,ins)
    # sampler both backends
    for be in ["permanent","slos"]:
        pd=emu.Sampler(c,st,backend=be).probability_distribution
        keys=set(ref)|{tuple(s.s) for s in pd}
        err=max(abs(ref.get(kk,0)-pd.get(lw.State(list(kk)),0)) for kk in keys)
        if err>1e-7: print(seed,be,"sampler err",err,"lossy",lossy); bad+=1
    # analyzer
    ps=lw.PostSelection(); ps.add(0,(0,1))
    an=emu.Analyzer(c); an.post_selection=ps
    r=an.analyze(st)
    hout=c.heralds["output"]
    for o,p in zip(r.outputs,r.array[0]):
        full=[];it=iter(o.s)
        for i in range(c.n_modes): full.append(hout[i] if i in hout else next(it))
        if abs(ref.get(tuple(full),0)-p)>1e-7: print(seed,"analyzer err",o,p,ref.get(tuple(full),0)); bad+=1; break
    tot_acc=sum(p for kk,p in ref.items() if all(kk[m]==0 for m in hm) and ps.validate(lw.State([v for i,v in enumerate(kk) if i not in hm])))
    if abs(r.performance-tot_acc)>1e-7: print(seed,"performance",r.performance,tot_acc,"lossy",lossy); bad+=1
    # quick sampler
    for pnr in [True,False]:
        try:
            q=emu.QuickSampler(c,st,photon_counting=pnr,post_select=ps).probability_distribution
        except Exception as e:
            q=None; exc=e
        cond={}
        for kk,p in ref.items():
            if not all(kk[m]==0 for m in hm): continue
            u=[v for i,v in enumerate(kk) if i not in hm]
            if sum(u)!=2 or not ps.validate(lw.State(u)): continue
            if not pnr and max(u)>1: continue
            cond[tuple(u)]=p
        t=sum(cond.values())
        if q is None:
            if t>1e-9: print(seed,"quick raised",exc); bad+=1
            continue
        err=max(abs(cond.get(kk,0)/t - q.get(lw.State(list(kk)),0)) for kk in set(cond)|{tuple(s.s) for s in q})
        if err>1e-7: print(seed,"quick err",err,pnr,"lossy",lossy); bad+=1
print("bad",bad)
