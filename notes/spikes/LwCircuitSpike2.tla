--------------------------- MODULE LwCircuitSpike2 ---------------------------
(* Second spike: loss lines, compositional semantics for Add, sem = Sem invariant. *)
EXTENDS LwCircuitSpike
\* ---- loss: op <<"loss", <<a>>, lid>> ; loss line t (in op order) has index nu + k + t ----
LossTab == << <<One, Zero>>, <<RSqrtHalf, RSqrtHalf>>, <<Zero, One>> >>   \* loss 0, 1/2, 1 : <<sqrt(t), sqrt(l)>>
NLoss(ops) == Len(SelectSeq(Flat(ops), LAMBDA o : o[1] = "loss"))
DimL(c) == c.nu + Len(c.anc) + NLoss(c.ops)
OpMatL(c, op, n, t) ==        \* n = full dimension, t = number of loss ops seen before this one
   IF op[1] = "loss" THEN
        LET a == Idx(c, op[2][1])  L == c.nu + Len(c.anc) + t + 1  v == LossTab[op[3]] IN
        Embed2(n, a, L, v[1], Neg(v[2]), v[2], v[1])
   ELSE IF op[1] = "bs" THEN
        LET a == Idx(c, op[2][1])  b == Idx(c, op[2][2])  r == ReflTab[op[3][1]] IN
        IF op[3][2] = "Rx" THEN Embed2(n, a, b, r[1], Mul(I, r[2]), Mul(I, r[2]), r[1])
        ELSE Embed2(n, a, b, r[1], r[2], r[2], Neg(r[1]))
   ELSE IF op[1] = "ps" THEN
        LET a == Idx(c, op[2][1]) IN [i \in 1..n |-> [j \in 1..n |-> IF i=j THEN (IF i=a THEN PhaseTab[op[3]] ELSE One) ELSE Zero]]
   ELSE PermMat(n, [k \in 1..Len(op[2]) |-> Idx(c, op[2][k])], [k \in 1..Len(op[3]) |-> Idx(c, op[3][k])])
SemL(c) == LET n == DimL(c)
               step(acc, o) == <<MMul(OpMatL(c, o, n, acc[2]), acc[1], n), IF o[1] = "loss" THEN acc[2] + 1 ELSE acc[2]>>
           IN FoldLeft(step, <<Id(n), 0>>, Flat(c.ops))[1]
\* ---- compositional semantics ----
\* Re-embed matrix M (dimension Len(map)) into dimension n, sending old index i to map[i]; identity elsewhere
ReEmbed(M, map, n) == TLCEval([i \in 1..n |-> [j \in 1..n |->
      LET pi == {x \in 1..Len(map) : map[x] = i}   pj == {x \in 1..Len(map) : map[x] = j} IN
      IF pi # {} /\ pj # {} THEN M[CHOOSE x \in pi : TRUE][CHOOSE y \in pj : TRUE]
      ELSE IF pi = {} /\ pj = {} /\ i = j THEN One ELSE Zero]])
\* index map of circuit c's own layout (users, anc, loss) into the layout of the enlarged parent
\* parent after Add: users 1..P.nu | anc 1..kP+kNew | loss 1..LP+LS
ParentMap(P, kNew, LS) ==      \* old parent index -> new parent index
   [i \in 1..DimL(P) |-> IF i <= P.nu + Len(P.anc) THEN i ELSE i + kNew]
SubMap(P, S, m, f, kNew) ==    \* sub index -> new parent index, f = line renaming as in AddResult
   LET kP == Len(P.anc)  LP == NLoss(P.ops)
       NewP == [nu |-> P.nu, anc |-> [j \in 1..(kP + kNew) |-> 0]]
   IN [i \in 1..DimL(S) |->
         IF i <= S.nu THEN Idx(NewP, f[i])
         ELSE IF i <= S.nu + Len(S.anc) THEN Idx(NewP, f[Anc(i - S.nu)])
         ELSE P.nu + kP + kNew + LP + (i - S.nu - Len(S.anc))]

AddF(P, S, m) ==
   LET freeIn == SortedSeq((1..S.nu) \ HIn(S))  kOld == Len(P.anc)  kS == Len(S.anc)  nh == Len(S.hord) IN
   [l \in (1..S.nu) \cup {Anc(j) : j \in 1..kS} |->
        IF IsAnc(l) THEN Anc(kOld + (l - 100))
        ELSE IF l \in HIn(S) THEN Anc(kOld + kS + (CHOOSE k \in 1..nh : S.hord[k][1] = l))
        ELSE m + (CHOOSE t \in 1..Len(freeIn) : freeIn[t] = l)]
AddSem(P, S, m, semP, semS) ==
   LET f == AddF(P, S, m)
       freeOut == SortedSeq((1..S.nu) \ HOut(S))
       nh == Len(S.hord)   kNew == Len(S.anc) + nh   LS == NLoss(S.ops)
       n2 == DimL(P) + kNew + LS
       NewP == [nu |-> P.nu, anc |-> [j \in 1..(Len(P.anc) + kNew) |-> 0]]
       outFrom == [t \in 1..Len(freeOut) |-> f[freeOut[t]]] \o [k \in 1..nh |-> f[S.hord[k][2]]]
       outTo   == [t \in 1..Len(freeOut) |-> m + t]         \o [k \in 1..nh |-> f[S.hord[k][1]]]
       A == ReEmbed(semP, ParentMap(P, kNew, LS), n2)
       B == ReEmbed(semS, SubMap(P, S, m, f, kNew), n2)
       Pm == PermMat(n2, [k \in 1..Len(outFrom) |-> Idx(NewP, outFrom[k])], [k \in 1..Len(outTo) |-> Idx(NewP, outTo[k])])
   IN MMul(Pm, MMul(B, A, n2), n2)
=============================================================================
