------------------------------ MODULE FockSpike ------------------------------
EXTENDS Ring, SequencesExt, FiniteSetsExt, Functions
\* occupation vectors are sequences of naturals of length M
RECURSIVE FockBasis(_,_)
FockBasis(M, n) == IF M = 1 THEN {<<n>>} ELSE UNION { { s \o <<v>> : s \in FockBasis(M-1, n-v) } : v \in 0..n }
RECURSIVE Expand(_,_)     \* occupation -> sorted list of mode indices (one per photon)
Expand(occ, i) == IF i > Len(occ) THEN <<>> ELSE [k \in 1..occ[i] |-> i] \o Expand(occ, i+1)
RECURSIVE Fact(_)
Fact(n) == IF n <= 1 THEN 1 ELSE n * Fact(n-1)
RECURSIVE ProdFact(_,_)
ProdFact(occ, i) == IF i > Len(occ) THEN 1 ELSE Fact(occ[i]) * ProdFact(occ, i+1)
RSum(S, f(_)) == FoldSet(LAMBDA x, acc : Add(acc, f(x)), Zero, S)
RProd(n, f(_)) == FoldLeft(LAMBDA acc, i : Mul(acc, f(i)), One, [i \in 1..n |-> i])
Perm(U, ins, outs) ==     \* permanent of U[rows = Expand(outs), cols = Expand(ins)]
   LET r == Expand(outs, 1)  c == Expand(ins, 1)  n == Len(r) IN
   IF n = 0 THEN One ELSE RSum(Permutations(1..n), LAMBDA s : RProd(n, LAMBDA i : U[r[i]][c[s[i]]]))
AbsSq(x) == Mul(x, Conj(x))
\* probability numerator |perm|^2 and integer denominator prod n! prod m!
ProbNum(U, ins, outs) == AbsSq(Perm(U, ins, outs))
ProbDen(ins, outs) == ProdFact(ins, 1) * ProdFact(outs, 1)
\* normalisation: sum_out |perm|^2 / den_out = den_in  <=>  sum_out |perm|^2 * (L / prodfact(out)) = L * prodfact(in)  with L = lcm bound n!^M; use n! as common multiple for small n
TotalScaled(U, ins, M, n) == RSum(FockBasis(M, n), LAMBDA o : Mul(ProbNum(U, ins, o), <<Fact(n) \div ProdFact(o,1),0,0,0,0>>))
Normalised(U, ins, M, n) == TotalScaled(U, ins, M, n) = Norm(<<Fact(n) * ProdFact(ins,1),0,0,0,0>>)
=============================================================================
