------------------------------ MODULE SourceSpike ------------------------------
EXTENDS Integers, Sequences, FiniteSets, TLC, SequencesExt, FiniteSetsExt, Functions
\* ---------- exact rationals <<num, den>>, den > 0, lowest terms ----------
RECURSIVE GCD(_,_)
GCD(a, b) == IF b = 0 THEN a ELSE GCD(b, a % b)
Abs(x) == IF x < 0 THEN -x ELSE x
Q(n, d) == LET g == GCD(Abs(n), d) IN IF n = 0 THEN <<0,1>> ELSE <<n \div g, d \div g>>
QAdd(x, y) == Q(x[1]*y[2] + y[1]*x[2], x[2]*y[2])
QMul(x, y) == Q(x[1]*y[1], x[2]*y[2])
QSub(x, y) == QAdd(x, <<-y[1], y[2]>>)
QOne == <<1,1>>   QZero == <<0,1>>
QSum(S, f(_)) == FoldSet(LAMBDA x, acc : QAdd(acc, f(x)), QZero, S)
CONSTANTS NUn, NUd, P2n, P2d, PIn, PId
NU == Q(NUn,NUd)  P2 == Q(P2n,P2d)  PI == Q(PIn,PId)
P1 == QSub(QOne, P2)   PD == QSub(QOne, PI)   NUc == QSub(QOne, NU)
\* outcome table (source.py _single_photon_distribution); outcome = <<intended, noise>> intended \in {"none","I","D"}
Base == QAdd(P1, QMul(NUc, P2))                                   \* p1 + (1-nu) p2
W(o) == IF o = <<"none",FALSE>> THEN QSub(QOne, QMul(NU, QAdd(P1, QAdd(QMul(P2,NU), QMul(<<2,1>>, QMul(NUc,P2))))))
        ELSE IF o = <<"I",FALSE>> THEN QMul(PI, QMul(NU, Base))
        ELSE IF o = <<"D",FALSE>> THEN QMul(PD, QMul(NU, Base))
        ELSE IF o = <<"none",TRUE>> THEN QMul(NU, QMul(NUc, P2))
        ELSE IF o = <<"I",TRUE>> THEN QMul(QMul(NU,NU), QMul(PI,P2))
        ELSE QMul(QMul(NU,NU), QMul(PD,P2))
Outcomes == { <<"none",FALSE>>, <<"I",FALSE>>, <<"D",FALSE>>, <<"none",TRUE>>, <<"I",TRUE>>, <<"D",TRUE>> }
TotalW == QSum(Outcomes, LAMBDA o : W(o))
\* photon-number statistics of one emission
PN(n) == QSum({o \in Outcomes : (IF o[1] = "none" THEN 0 ELSE 1) + (IF o[2] THEN 1 ELSE 0) = n}, LAMBDA o : W(o))
Mean == QAdd(PN(1), QMul(<<2,1>>, PN(2)))
G2num == QMul(<<2,1>>, PN(2))         \* <n(n-1)> = 2 P(2)
\* g2 = G2num / Mean^2 must equal 1 - purity = 2x/(1+x)^2  <=>  G2num * (1+x)^2 = 2x * Mean^2
G2ok == QMul(G2num, QMul(QAdd(QOne,P2), QAdd(QOne,P2))) = QMul(QMul(<<2,1>>,P2), QMul(Mean, Mean))
\* HOM: two photons, one per input of a 50:50 beam splitter. coincidence prob = 1/2 for distinguishable pair, 0 for an indistinguishable pair.
\* restrict to pure, bright source: P(both intended indistinguishable) = PI*PI  ==> coincidence = (1 - PI^2)/2 ; visibility = PI^2 = indistinguishability
Coinc == QMul(<<1,2>>, QSub(QOne, QMul(PI,PI)))
ASSUME PrintT(<<"total", TotalW, "P(n)", PN(0), PN(1), PN(2), "g2ok", G2ok, "coinc(pure,bright)", Coinc>>)
ASSUME TotalW = QOne
ASSUME G2ok
=============================================================================
