CONSTANTS PNu = 3
MaxSteps = 4
SPECIFICATION Spec
PROPERTY ArgFrame
CHECK_DEADLOCK FALSE
