------------------------------- MODULE LwGates -------------------------------
(***************************************************************************)
(* The named qubit gates (C13): exact logical matrices in the ring, the    *)
(* documented success probabilities |scalar|^2, and the composition rules  *)
(* the library uses (CNOT = H.CZ.H on the target, CCNOT = H.CCZ.H).        *)
(* Matrices are functions [1..d -> [1..d -> elt]], M[out][in], basis order *)
(* q0 most significant.  Rotation angles are k * pi/2 (k = 0..7), phase    *)
(* gate angles k * pi/4.                                                   *)
(***************************************************************************)
EXTENDS LwMatrix

Rows(rs) == [i \in 1..Len(rs) |-> [j \in 1..Len(rs) |-> rs[i][j]]]
NegI == RNeg(Im)
H1 == Rows(<< <<RSqrtHalf, RSqrtHalf>>, <<RSqrtHalf, RNeg(RSqrtHalf)>> >>)
X1 == Rows(<< <<Zero, One>>, <<One, Zero>> >>)
Y1 == Rows(<< <<Zero, NegI>>, <<Im, Zero>> >>)
Z1 == Rows(<< <<One, Zero>>, <<Zero, RNeg(One)>> >>)
S1 == Rows(<< <<One, Zero>>, <<Zero, Im>> >>)
Sadj1 == Rows(<< <<One, Zero>>, <<Zero, NegI>> >>)
T1 == Rows(<< <<One, Zero>>, <<Zero, W8>> >>)
Tadj1 == Rows(<< <<One, Zero>>, <<Zero, RConj(W8)>> >>)
SXm == Rows(<< <<RMul(RHalf, RAdd(One, Im)), RMul(RHalf, RSub(One, Im))>>, <<RMul(RHalf, RSub(One, Im)), RMul(RHalf, RAdd(One, Im))>> >>)
I1 == MId(2)
\* cos / sin of k*pi/4
CosQ(k) == LET q == k % 8 IN IF q \in {0} THEN One ELSE IF q \in {1, 7} THEN RSqrtHalf ELSE IF q \in {2, 6} THEN Zero ELSE IF q \in {3, 5} THEN RNeg(RSqrtHalf) ELSE RNeg(One)
SinQ(k) == CosQ(k + 6)
\* rotation by theta = k*pi/2 : half angle k*pi/4
RxM(k) == Rows(<< <<CosQ(k), RMul(NegI, SinQ(k))>>, <<RMul(NegI, SinQ(k)), CosQ(k)>> >>)
RyM(k) == Rows(<< <<CosQ(k), RNeg(SinQ(k))>>, <<SinQ(k), CosQ(k)>> >>)
RzM(k) == Rows(<< <<PhaseVal(8 - (k % 8)), Zero>>, <<Zero, PhaseVal(k)>> >>)
PM(k)  == Rows(<< <<One, Zero>>, <<Zero, PhaseVal(k)>> >>)       \* theta = k*pi/4
Kron(A, B) == LET a == Len(A)  b == Len(B) IN
   TLCEval([i \in 1..(a * b) |-> [j \in 1..(a * b) |-> RMul(A[((i - 1) \div b) + 1][((j - 1) \div b) + 1], B[((i - 1) % b) + 1][((j - 1) % b) + 1])]])
DiagM(d, neg) == [i \in 1..d |-> [j \in 1..d |-> IF i # j THEN Zero ELSE IF i = neg THEN RNeg(One) ELSE One]]
CZm == DiagM(4, 4)
CCZm == DiagM(8, 8)
PermM(d, f) == [i \in 1..d |-> [j \in 1..d |-> IF i = f[j] THEN One ELSE Zero]]      \* basis state j -> f[j]
CNOTm(t) == IF t = 1 THEN PermM(4, <<1, 2, 4, 3>>) ELSE PermM(4, <<1, 4, 3, 2>>)   \* target 1: control q0; target 0: control q1
SWAPm == PermM(4, <<1, 3, 2, 4>>)
\* Toffoli with target t (0,1,2), the other two qubits control; index = 4 q0 + 2 q1 + q2 + 1
CCNOTm(t) == IF t = 2 THEN PermM(8, <<1, 2, 3, 4, 5, 6, 8, 7>>)
             ELSE IF t = 1 THEN PermM(8, <<1, 2, 3, 4, 5, 8, 7, 6>>)
             ELSE PermM(8, <<1, 2, 3, 8, 5, 6, 7, 4>>)
HOn(t, n) == IF n = 2 THEN (IF t = 0 THEN Kron(H1, I1) ELSE Kron(I1, H1))
             ELSE (IF t = 0 THEN Kron(H1, Kron(I1, I1)) ELSE IF t = 1 THEN Kron(I1, Kron(H1, I1)) ELSE Kron(I1, Kron(I1, H1)))

\* the table: <<gate name, option>> -> <<matrix, |scalar|^2 as <<num, den>>>>
Named(g, opt) ==
   IF g = "I" THEN <<I1, <<1, 1>>>> ELSE IF g = "H" THEN <<H1, <<1, 1>>>> ELSE IF g = "X" THEN <<X1, <<1, 1>>>>
   ELSE IF g = "Y" THEN <<Y1, <<1, 1>>>> ELSE IF g = "Z" THEN <<Z1, <<1, 1>>>> ELSE IF g = "S" THEN <<S1, <<1, 1>>>>
   ELSE IF g = "Sadj" THEN <<Sadj1, <<1, 1>>>> ELSE IF g = "T" THEN <<T1, <<1, 1>>>> ELSE IF g = "Tadj" THEN <<Tadj1, <<1, 1>>>>
   ELSE IF g = "SX" THEN <<SXm, <<1, 1>>>>
   ELSE IF g = "Rx" THEN <<RxM(opt), <<1, 1>>>> ELSE IF g = "Ry" THEN <<RyM(opt), <<1, 1>>>> ELSE IF g = "Rz" THEN <<RzM(opt), <<1, 1>>>>
   ELSE IF g = "P" THEN <<PM(opt), <<1, 1>>>>
   ELSE IF g = "SWAP" THEN <<SWAPm, <<1, 1>>>>
   ELSE IF g = "CZ" THEN <<CZm, <<1, 9>>>> ELSE IF g = "CNOT" THEN <<CNOTm(opt), <<1, 9>>>>
   ELSE IF g = "CZ_Heralded" THEN <<CZm, <<1, 16>>>> ELSE IF g = "CNOT_Heralded" THEN <<CNOTm(opt), <<1, 16>>>>
   ELSE IF g = "CCZ" THEN <<CCZm, <<1, 72>>>> ELSE <<CCNOTm(opt), <<1, 72>>>>

\* ---- design-level facts, checked by TLC as assumptions ----
ASSUME CNOTIsHConjugatedCZ == \A t \in 0..1 : MMul(HOn(t, 2), MMul(CZm, HOn(t, 2))) = CNOTm(t)
ASSUME CCNOTIsHConjugatedCCZ == \A t \in 0..2 : MMul(HOn(t, 3), MMul(CCZm, HOn(t, 3))) = CCNOTm(t)
ASSUME GateAlgebra == /\ MMul(S1, S1) = Z1 /\ MMul(T1, T1) = S1 /\ MMul(SXm, SXm) = X1 /\ MMul(H1, H1) = I1
                      /\ MMul(S1, Sadj1) = I1 /\ MMul(T1, Tadj1) = I1 /\ MMul(H1, MMul(Z1, H1)) = X1
                      /\ RxM(2) = Rows(<< <<Zero, NegI>>, <<NegI, Zero>> >>) /\ RyM(2) = Rows(<< <<Zero, RNeg(One)>>, <<One, Zero>> >>)
                      /\ \A k \in 0..7 : IsUnitary(RxM(k)) /\ IsUnitary(RyM(k)) /\ IsUnitary(RzM(k)) /\ IsUnitary(PM(k))
=============================================================================
