--------------------------- MODULE LwCircuitDefs ---------------------------
(***************************************************************************)
(* The abstract lightworks Circuit.                                        *)
(*                                                                         *)
(* The implementation identifies modes by POSITION and re-indexes its      *)
(* whole component list whenever a hidden ancilla mode is inserted.  The   *)
(* specification identifies modes by IDENTITY ("lines"):                   *)
(*     user line i  = i           (API mode m is user line m+1)            *)
(*     ancilla  j   = 100 + j     (private herald modes, creation order)   *)
(*     loss lines are anonymous: the t-th loss op (flattened op order)     *)
(*     owns the t-th extra line.                                           *)
(* so that the meaning of a circuit is independent of any placement the    *)
(* implementation chooses.                                                 *)
(*                                                                         *)
(* A circuit is a record                                                   *)
(*   [nu   : number of user lines,                                         *)
(*    anc  : Seq(Nat)   herald photon number of ancilla 1..k,              *)
(*    hord : Seq(<<in line, out line, n>>) heralds declared on this        *)
(*           circuit by the user, in declaration order,                    *)
(*    ops  : Seq(Op)]                                                      *)
(* An op is a uniform triple <<kind, lines, param>>:                       *)
(*   <<"bs",  <<a,b>>, <<rid, cv>>>>   rid: reflectivity id | 1000+param   *)
(*   <<"ps",  <<a>>,   pid>>           pid: phase id 0..7   | 1000+param   *)
(*   <<"loss",<<a>>,   q>>             q : loss id 0..2     | 1000+param   *)
(*   <<"perm", from, to>>              photon on from[k] leaves on to[k]   *)
(*   <<"bar", lines, 0>>               barrier (identity)                  *)
(*   <<"u",   lines, blockid>>         unitary block on consecutive lines  *)
(*   <<"grp", <<>>, ops>>              a group                             *)
(***************************************************************************)
EXTENDS LwMatrix

IsAnc(l) == l > 100
Anc(j) == 100 + j
OpBs(a, b, rid, cv) == <<"bs", <<a, b>>, <<rid, cv>>>>
OpPs(a, pid)        == <<"ps", <<a>>, pid>>
OpLoss(a, q)        == <<"loss", <<a>>, q>>
OpPerm(from, to)    == <<"perm", from, to>>
OpBar(lines)        == <<"bar", lines, 0>>
OpU(lines, id)      == <<"u", lines, id>>
OpGrp(ops)          == <<"grp", <<>>, ops>>

New(n) == [nu |-> n, anc |-> <<>>, hord |-> <<>>, ops |-> <<>>]
NullC  == [nu |-> -1, anc |-> <<>>, hord |-> <<>>, ops |-> <<>>]
HIn(c)  == {c.hord[k][1] : k \in 1..Len(c.hord)}
HOut(c) == {c.hord[k][2] : k \in 1..Len(c.hord)}
SortedSeq(S) == SetToSortSeq(S, <)

RECURSIVE Flat(_)
Flat(ops) == IF ops = <<>> THEN <<>>
             ELSE IF Head(ops)[1] = "grp" THEN Flat(Head(ops)[3]) \o Flat(Tail(ops))
             ELSE <<Head(ops)>> \o Flat(Tail(ops))
HasGroup(ops) == \E k \in 1..Len(ops) : ops[k][1] = "grp"
NLoss(ops) == Len(SelectSeq(Flat(ops), LAMBDA o : o[1] = "loss"))
NAnc(c) == Len(c.anc)
Dim(c)  == c.nu + Len(c.anc)                    \* modes the implementation reports (n_modes)
DimL(c) == Dim(c) + NLoss(c.ops)                \* dimension of U_full
InputModes(c) == c.nu - Len(c.hord)
Idx(c, l) == IF IsAnc(l) THEN c.nu + (l - 100) ELSE l

\* ---- parameters: a param field >= 1000 refers to parameter (x - 1000); pv maps it to a value id
Res(x, pv) == IF x >= 1000 THEN pv[x - 1000] ELSE x
RECURSIVE ParamsOf(_)
ParamsOf(ops) == IF ops = <<>> THEN {} ELSE
   LET o == Head(ops)
       here == IF o[1] = "grp" THEN ParamsOf(o[3])
               ELSE IF o[1] = "bs" THEN (IF o[3][1] >= 1000 THEN {o[3][1] - 1000} ELSE {})
               ELSE IF o[1] \in {"ps", "loss"} THEN (IF o[3] >= 1000 THEN {o[3] - 1000} ELSE {})
               ELSE {}
   IN here \cup ParamsOf(Tail(ops))
\* is the current value of every parameter valid for the component that uses it?
RECURSIVE OpsCompile(_,_)
OpsCompile(ops, pv) == \A k \in 1..Len(ops) :
   LET o == ops[k] IN
   IF o[1] = "grp" THEN OpsCompile(o[3], pv)
   ELSE IF o[1] = "bs" THEN Res(o[3][1], pv) \in 0..2
   ELSE IF o[1] = "loss" THEN Res(o[3], pv) \in 0..2
   ELSE IF o[1] = "ps" THEN Res(o[3], pv) \in 0..7
   ELSE TRUE

\* ---- semantics -----------------------------------------------------------
\* matrix of op o in dimension n, with t loss ops seen before it
OpMat(c, o, n, t, pv) ==
   IF o[1] = "loss" THEN Embed2(n, Idx(c, o[2][1]), Dim(c) + t + 1, LossBlock(Res(o[3], pv)))
   ELSE IF o[1] = "bs" THEN Embed2(n, Idx(c, o[2][1]), Idx(c, o[2][2]), BsBlock(Res(o[3][1], pv), o[3][2]))
   ELSE IF o[1] = "ps" THEN MDiag1(n, Idx(c, o[2][1]), PhaseVal(Res(o[3], pv)))
   ELSE IF o[1] = "perm" THEN PermMat(n, [k \in 1..Len(o[2]) |-> Idx(c, o[2][k])], [k \in 1..Len(o[3]) |-> Idx(c, o[3][k])])
   ELSE IF o[1] = "u" THEN EmbedK(n, [k \in 1..Len(o[2]) |-> Idx(c, o[2][k])], UBlock(o[3], Len(o[2])))
   ELSE MId(n)
\* the flattened semantics: left-multiply each op's matrix in order
SemP(c, pv) == LET n == DimL(c)
                   step(acc, o) == <<MMul(OpMat(c, o, n, acc[2], pv), acc[1]), IF o[1] = "loss" THEN acc[2] + 1 ELSE acc[2]>>
               IN FoldLeft(step, <<MId(n), 0>>, Flat(c.ops))[1]
Sem(c) == SemP(c, <<>>)
UOf(M, c) == MBlock(M, Dim(c))

\* ---- line renaming --------------------------------------------------------
RECURSIVE RenameOps(_,_)
RenameOps(ops, f) == IF ops = <<>> THEN <<>> ELSE
   LET o == Head(ops)
       ro == IF o[1] = "grp" THEN <<"grp", <<>>, RenameOps(o[3], f)>>
             ELSE IF o[1] = "perm" THEN <<"perm", [k \in 1..Len(o[2]) |-> f[o[2][k]]], [k \in 1..Len(o[3]) |-> f[o[3][k]]]>>
             ELSE <<o[1], [k \in 1..Len(o[2]) |-> f[o[2][k]]], o[3]>>
   IN <<ro>> \o RenameOps(Tail(ops), f)
RECURSIVE LinesOf(_)
LinesOf(ops) == IF ops = <<>> THEN {} ELSE
   LET o == Head(ops)
       here == IF o[1] = "grp" THEN LinesOf(o[3])
               ELSE IF o[1] = "perm" THEN {o[2][k] : k \in 1..Len(o[2])} \cup {o[3][k] : k \in 1..Len(o[3])}
               ELSE {o[2][k] : k \in 1..Len(o[2])}
   IN here \cup LinesOf(Tail(ops))

\* ---- construction calls (API mode numbers are 0-based user modes) ---------
ModeOk(c, m) == m \in 0..(c.nu - 1)
\* a value argument is a literal id or a parameter reference (1000 + p); a referenced parameter's CURRENT value is validated
ValOk(x, range, pv) == IF x >= 1000 THEN (x - 1000) \in 1..Len(pv) /\ pv[x - 1000] \in range ELSE x \in range
BsValid(c, m1, m2, rid, cv, lq, pv) ==
   ModeOk(c, m1) /\ ModeOk(c, m2) /\ m1 # m2 /\ ValOk(rid, 0..2, pv) /\ cv \in {"Rx", "H"} /\ ValOk(lq, 0..2, pv)
LossTail(lines, lq) == IF lq = 0 THEN <<>> ELSE [k \in 1..Len(lines) |-> OpLoss(lines[k], lq)]
BsApply(c, m1, m2, rid, cv, lq) ==
   [c EXCEPT !.ops = @ \o <<OpBs(m1 + 1, m2 + 1, rid, cv)>> \o LossTail(<<m1 + 1, m2 + 1>>, lq)]
PsValid(c, m, pid, lq, pv) == ModeOk(c, m) /\ (pid >= 1000 \/ pid \in 0..7) /\ ValOk(lq, 0..2, pv)
PsApply(c, m, pid, lq) == [c EXCEPT !.ops = @ \o <<OpPs(m + 1, pid)>> \o LossTail(<<m + 1>>, lq)]
LossValid(c, m, q, pv) == ModeOk(c, m) /\ ValOk(q, 0..2, pv)
LossApply(c, m, q) == [c EXCEPT !.ops = Append(@, OpLoss(m + 1, q))]
\* barrier(modes): <<99>> stands for modes = None (all user modes); <<>> is the empty list (a barrier on no mode)
BarValid(c, ms) == ms = <<99>> \/ \A k \in 1..Len(ms) : ModeOk(c, ms[k])
BarApply(c, ms) == [c EXCEPT !.ops = Append(@, OpBar(IF ms = <<99>> THEN [k \in 1..c.nu |-> k] ELSE [k \in 1..Len(ms) |-> ms[k] + 1]))]
\* swaps given as two equally long sequences of API modes (dict keys, dict values)
SwapsValid(c, from, to) ==
   /\ Len(from) = Len(to)
   /\ \A k \in 1..Len(from) : ModeOk(c, from[k]) /\ ModeOk(c, to[k])
   /\ {from[k] : k \in 1..Len(from)} = {to[k] : k \in 1..Len(to)}
   /\ Cardinality({from[k] : k \in 1..Len(from)}) = Len(from)
SwapsApply(c, from, to) ==
   [c EXCEPT !.ops = Append(@, OpPerm([k \in 1..Len(from) |-> from[k] + 1], [k \in 1..Len(to) |-> to[k] + 1]))]
HeraldValid(c, n, i, o) == n >= 0 /\ ModeOk(c, i) /\ ModeOk(c, o) /\ (i + 1) \notin HIn(c) /\ (o + 1) \notin HOut(c)
HeraldApply(c, n, i, o) == [c EXCEPT !.hord = Append(@, <<i + 1, o + 1, n>>)]
\* a Unitary component (block id, size k) added at API mode m
UValid(c, m, k) == ModeOk(c, m) /\ m + k <= c.nu
UApply(c, m, k, id) == [c EXCEPT !.ops = Append(@, OpU([j \in 1..k |-> m + j], id))]

\* ---- adding circuit S to parent P at API mode m ---------------------------
\* The property's own wording: the non-heralded inputs and outputs of S are connected, in order,
\* to P's user lines m+1, m+2, ...; every heralded mode of S (and every ancilla S already owns)
\* becomes a fresh private ancilla of P with the same herald number at input and output.
AddWidth(S) == S.nu - Len(S.hord)
AddValid(P, S, m) == ModeOk(P, m) /\ m + AddWidth(S) <= P.nu
AddF(P, S, m) ==
   LET freeIn == SortedSeq((1..S.nu) \ HIn(S))  kOld == Len(P.anc)  kS == Len(S.anc)  nh == Len(S.hord) IN
   [l \in (1..S.nu) \cup {Anc(j) : j \in 1..kS} |->
        IF IsAnc(l) THEN Anc(kOld + (l - 100))
        ELSE IF l \in HIn(S) THEN Anc(kOld + kS + (CHOOSE k \in 1..nh : S.hord[k][1] = l))
        ELSE m + (CHOOSE t \in 1..Len(freeIn) : freeIn[t] = l)]
AddOutFrom(P, S, m) == LET f == AddF(P, S, m)  freeOut == SortedSeq((1..S.nu) \ HOut(S)) IN
   [t \in 1..Len(freeOut) |-> f[freeOut[t]]] \o [k \in 1..Len(S.hord) |-> f[S.hord[k][2]]]
AddOutTo(P, S, m) == LET f == AddF(P, S, m) IN
   [t \in 1..AddWidth(S) |-> m + t] \o [k \in 1..Len(S.hord) |-> f[S.hord[k][1]]]
AddApply(P, S, m, grp) ==
   LET f == AddF(P, S, m)
       outFrom == AddOutFrom(P, S, m)   outTo == AddOutTo(P, S, m)
       body == IF grp \/ Len(S.hord) + Len(S.anc) > 0 THEN Flat(S.ops) ELSE S.ops
       newOps == RenameOps(body, f) \o (IF outFrom = outTo THEN <<>> ELSE <<OpPerm(outFrom, outTo)>>)
   IN [P EXCEPT !.ops = @ \o (IF grp \/ Len(S.hord) + Len(S.anc) > 0 THEN <<OpGrp(newOps)>> ELSE newOps),
                !.anc = @ \o S.anc \o [k \in 1..Len(S.hord) |-> S.hord[k][3]]]
\* compositional semantics of the same call: "the two transformations composed under this wiring"
ParentMap(P, kNew) == [i \in 1..DimL(P) |-> IF i <= Dim(P) THEN i ELSE i + kNew]
SubMap(P, S, m, kNew) ==
   LET f == AddF(P, S, m)  kP == Len(P.anc)  LP == NLoss(P.ops)
       NewP == [nu |-> P.nu, anc |-> [j \in 1..(kP + kNew) |-> 0]]
   IN [i \in 1..DimL(S) |->
         IF i <= S.nu THEN Idx(NewP, f[i])
         ELSE IF i <= Dim(S) THEN Idx(NewP, f[Anc(i - S.nu)])
         ELSE P.nu + kP + kNew + LP + (i - Dim(S))]
AddSem(P, S, m, semP, semS) ==
   LET kNew == Len(S.anc) + Len(S.hord)
       n2 == DimL(P) + kNew + NLoss(S.ops)
       NewP == [nu |-> P.nu, anc |-> [j \in 1..(Len(P.anc) + kNew) |-> 0]]
       outFrom == AddOutFrom(P, S, m)   outTo == AddOutTo(P, S, m)
       A == ReEmbed(semP, ParentMap(P, kNew), n2)
       B == ReEmbed(semS, SubMap(P, S, m, kNew), n2)
       Pm == PermMat(n2, [k \in 1..Len(outFrom) |-> Idx(NewP, outFrom[k])], [k \in 1..Len(outTo) |-> Idx(NewP, outTo[k])])
   IN MMul(Pm, MMul(B, A))
\* appending a non-loss op / a loss op to a circuit whose semantics is M
AppendSem(c2, o, M, pv) ==        \* c2 = circuit AFTER the append
   IF o[1] = "loss" THEN MMul(OpMat(c2, o, DimL(c2), NLoss(c2.ops) - 1, pv), MPad(M, DimL(c2)))
   ELSE MMul(OpMat(c2, o, DimL(c2), 0, pv), M)
AppendAllSem(c, newOps, M, pv) ==   \* append several flat ops one after another
   FoldLeft(LAMBDA acc, o : LET c2 == [acc[1] EXCEPT !.ops = Append(@, o)] IN <<c2, AppendSem(c2, o, acc[2], pv)>>,
            <<c, M>>, newOps)[2]

\* ---- copy(freeze_parameters=True): every parameter reference replaced by its current value id ----
RECURSIVE FreezeOps(_,_)
FreezeOps(ops, pv) == IF ops = <<>> THEN <<>> ELSE
   LET o == Head(ops)
       fo == IF o[1] = "grp" THEN <<"grp", <<>>, FreezeOps(o[3], pv)>>
             ELSE IF o[1] = "bs" THEN <<"bs", o[2], <<Res(o[3][1], pv), o[3][2]>>>>
             ELSE IF o[1] \in {"ps", "loss"} THEN <<o[1], o[2], Res(o[3], pv)>>
             ELSE o
   IN <<fo>> \o FreezeOps(Tail(ops), pv)
\* the matrix a circuit reports for the CURRENT parameter values, <<>> when some value is invalid for its component
SemOrErr(c, pv) == IF OpsCompile(c.ops, pv) THEN SemP(c, pv) ELSE <<>>

\* ---- a + b ---------------------------------------------------------------
PlusValid(a, b) == a.nu = b.nu /\ Len(a.hord) = 0 /\ Len(b.hord) = 0 /\ Len(a.anc) = 0 /\ Len(b.anc) = 0
PlusApply(a, b) == [New(a.nu) EXCEPT !.ops = a.ops \o b.ops]

\* ---- rewrites ------------------------------------------------------------
\* unpack_groups: groups dissolve AND private ancillas become ordinary heralded user modes.  Where they
\* land among the user modes is the implementation's business; place[j] is the new user line of ancilla j
\* and the old user lines keep their relative order (the property: unitary, heralds, input size unchanged).
UnpackPlaceOk(c, place) ==
   /\ Len(place) = Len(c.anc)
   /\ \A j \in 1..Len(place) : place[j] \in 1..Dim(c)
   /\ Cardinality({place[j] : j \in 1..Len(place)}) = Len(place)
UnpackF(c, place) ==
   LET taken == {place[j] : j \in 1..Len(place)}
       freeSlots == SortedSeq((1..Dim(c)) \ taken)
   IN [l \in (1..c.nu) \cup {Anc(j) : j \in 1..Len(c.anc)} |-> IF IsAnc(l) THEN place[l - 100] ELSE freeSlots[l]]
UnpackApply(c, place) ==
   LET f == UnpackF(c, place) IN
   [nu |-> Dim(c), anc |-> <<>>,
    hord |-> [k \in 1..Len(c.hord) |-> <<f[c.hord[k][1]], f[c.hord[k][2]], c.hord[k][3]>>]
             \o [j \in 1..Len(c.anc) |-> <<place[j], place[j], c.anc[j]>>],
    ops |-> RenameOps(Flat(c.ops), f)]
UnpackSem(c, place, M) ==
   LET f == UnpackF(c, place) IN
   ReEmbed(M, [i \in 1..DimL(c) |-> IF i <= c.nu THEN f[i] ELSE IF i <= Dim(c) THEN f[Anc(i - c.nu)] ELSE i], DimL(c))
\* structural postconditions of the other rewrites
RECURSIVE NoNonAdjBs(_,_)
\* pos: line -> position (supplied by the observer); adjacency is a statement about positions
NoNonAdjBs(ops, pos) == \A k \in 1..Len(ops) :
   LET o == ops[k] IN
   IF o[1] = "grp" THEN NoNonAdjBs(o[3], pos)
   ELSE IF o[1] = "bs" THEN (pos[o[2][1]] - pos[o[2][2]]) \in {-1, 1}
   ELSE TRUE
=============================================================================
