------------------------------- MODULE LwTomo -------------------------------
(***************************************************************************)
(* State and process tomography (C15, C16) on the LOGICAL level.           *)
(*                                                                         *)
(* A program is a sequence of ring gates on NQ qubits; V is its unitary,   *)
(* psi = V |0..0>.  The specification defines                              *)
(*  - the measurement settings the experiment must receive: {X,Y,Z}^n,     *)
(*    each as the base circuit followed by per-qubit basis changes         *)
(*    (X: H, Y: H.Z.S, Z: identity); settings containing I reuse Z data;   *)
(*  - noiseless outcome probabilities, Pauli expectation values and the    *)
(*    reconstructed density matrix rho = 2^-n sum <P> P;                   *)
(*  - the Choi matrix in the convention the EXPERIMENTS define:            *)
(*    tr((rho^T (x) P) J) = tr(P V rho V^dagger) for every input rho and   *)
(*    Pauli P, i.e. J = |V>><<V| with |V>> = sum_i |i> (x) V|i>;           *)
(*  - the average gate fidelity (|tr U^dagger V|^2 + d) / (d (d + 1)).     *)
(* Matrices: M[out][in], basis order q0 most significant.                  *)
(***************************************************************************)
EXTENDS LwGates

CONSTANTS NQ, MaxGates, Alphabet      \* Alphabet: set of <<gate name, qubit>> (qubit 0-based; "CZ"/"CNOT"/"SWAP" act on qubits 0,1)
VARIABLES gs, V, out
vars == <<gs, V, out>>
D == 2 ^ NQ

G1(name) == IF name = "H" THEN H1 ELSE IF name = "S" THEN S1 ELSE IF name = "T" THEN T1 ELSE IF name = "X" THEN X1
            ELSE IF name = "Y" THEN Y1 ELSE IF name = "Z" THEN Z1 ELSE IF name = "SX" THEN SXm ELSE IF name = "Sadj" THEN Sadj1 ELSE I1
OnQubit(A, q) == IF NQ = 1 THEN A ELSE IF q = 0 THEN Kron(A, I1) ELSE Kron(I1, A)
GateMat(g) == IF g[1] = "CZ" THEN CZm ELSE IF g[1] = "CNOT" THEN CNOTm(g[2]) ELSE IF g[1] = "SWAP" THEN SWAPm ELSE OnQubit(G1(g[1]), g[2])

\* ---- Pauli strings and settings: sequences over {"I","X","Y","Z"} of length NQ ----
RECURSIVE Strings(_,_)
Strings(S, n) == IF n = 0 THEN {<<>>} ELSE {Append(s, x) : s \in Strings(S, n - 1), x \in S}
AllMeasurements == Strings({"I", "X", "Y", "Z"}, NQ)
Required == Strings({"X", "Y", "Z"}, NQ)
Reuse(m) == [k \in 1..NQ |-> IF m[k] = "I" THEN "Z" ELSE m[k]]
Pauli1(c) == IF c = "X" THEN X1 ELSE IF c = "Y" THEN Y1 ELSE IF c = "Z" THEN Z1 ELSE I1
PauliMat(m) == IF NQ = 1 THEN Pauli1(m[1]) ELSE Kron(Pauli1(m[1]), Pauli1(m[2]))
\* basis change applied BEFORE a Z measurement: X -> H ; Y -> H.Z.S (the circuit S, then Z, then H) ; Z, I -> identity
Basis1(c) == IF c = "X" THEN H1 ELSE IF c = "Y" THEN MMul(H1, MMul(Z1, S1)) ELSE I1
BasisMat(s) == IF NQ = 1 THEN Basis1(s[1]) ELSE Kron(Basis1(s[1]), Basis1(s[2]))

\* ---- vectors as D x 1: functions [1..D -> elt] ----
MatVec(A, v) == [i \in 1..D |-> RSumSeq([k \in 1..D |-> RMul(A[i][k], v[k])])]
E0 == [i \in 1..D |-> IF i = 1 THEN One ELSE Zero]
Psi(W) == MatVec(W, E0)
Bit(b, k) == ((b - 1) \div (2 ^ (NQ - k))) % 2             \* bit of qubit k (1-based) in basis index b (1-based)
\* noiseless outcome probabilities of setting s on state v
Probs(v, s) == LET w == MatVec(BasisMat(s), v) IN [b \in 1..D |-> RAbsSq(w[b])]
Expect(v, m) == LET p == Probs(v, Reuse(m)) IN
   RSumSeq([b \in 1..D |-> IF (FoldLeft(LAMBDA a, k : a + (IF m[k] = "I" THEN 0 ELSE Bit(b, k)), 0, [k \in 1..NQ |-> k]) % 2) = 0 THEN p[b] ELSE RNeg(p[b])])
RDivD(x) == IF NQ = 1 THEN RMul(RHalf, x) ELSE RMul(RMul(RHalf, RHalf), x)
MAddM(A, B) == [i \in 1..Len(A) |-> [j \in 1..Len(A) |-> RAdd(A[i][j], B[i][j])]]
MScale(c, A) == [i \in 1..Len(A) |-> [j \in 1..Len(A) |-> RMul(c, A[i][j])]]
MZero(d) == [i \in 1..d |-> [j \in 1..d |-> Zero]]
Rho(v) == FoldSet(LAMBDA m, acc : MAddM(acc, MScale(RDivD(Expect(v, m)), PauliMat(m))), MZero(D), AllMeasurements)
Outer(v) == [i \in 1..D |-> [j \in 1..D |-> RMul(v[i], RConj(v[j]))]]
MTrace(A) == RSumSeq([i \in 1..Len(A) |-> A[i][i]])
MTranspose(A) == [i \in 1..Len(A) |-> [j \in 1..Len(A) |-> A[j][i]]]

\* ---- Choi matrices (dimension D*D) ----
\* |W>> = sum_i |i> (x) W|i> : entry (i, k) at index (i-1)*D + k is W[k][i]
VecCol(W) == [x \in 1..(D * D) |-> W[((x - 1) % D) + 1][((x - 1) \div D) + 1]]
VecRow(W) == [x \in 1..(D * D) |-> W[((x - 1) \div D) + 1][((x - 1) % D) + 1]]
OuterV(v) == [i \in 1..Len(v) |-> [j \in 1..Len(v) |-> RMul(v[i], RConj(v[j]))]]
Choi(W) == OuterV(VecCol(W))                       \* the convention the experiments define
ChoiRowMajor(W) == OuterV(VecRow(W))               \* outer(W.flatten(), conj): equals Choi(W) only for symmetric W
\* the six tomography input states as vectors (1 qubit) and their density matrices
In1(c) == IF c = "Z+" THEN <<One, Zero>> ELSE IF c = "Z-" THEN <<Zero, One>>
          ELSE IF c = "X+" THEN <<RSqrtHalf, RSqrtHalf>> ELSE IF c = "X-" THEN <<RSqrtHalf, RNeg(RSqrtHalf)>>
          ELSE IF c = "Y+" THEN <<RSqrtHalf, RMul(Im, RSqrtHalf)>> ELSE <<RSqrtHalf, RMul(RNeg(Im), RSqrtHalf)>>
InVec(cs) == IF NQ = 1 THEN In1(cs[1]) ELSE [x \in 1..4 |-> RMul(In1(cs[1])[((x - 1) \div 2) + 1], In1(cs[2])[((x - 1) % 2) + 1])]
Inputs6 == Strings({"Z+", "Z-", "X+", "X-", "Y+", "Y-"}, NQ)
\* defining equations of process tomography: tr((rho^T (x) P) J) = tr(P W rho W^dagger)
BigKron(A, B) == LET a == Len(A)  b == Len(B) IN
   [i \in 1..(a * b) |-> [j \in 1..(a * b) |-> RMul(A[((i - 1) \div b) + 1][((j - 1) \div b) + 1], B[((i - 1) % b) + 1][((j - 1) % b) + 1])]]
TraceProd(A, B) == RSumSeq([i \in 1..Len(A) |-> RSumSeq([k \in 1..Len(A) |-> RMul(A[i][k], B[k][i])])])
ChoiDefines(W, J) == \A cs \in Inputs6, m \in AllMeasurements :
   LET rho == Outer(InVec(cs))  outRho == Outer(MatVec(W, InVec(cs))) IN
   TraceProd(BigKron(MTranspose(rho), PauliMat(m)), J) = TraceProd(PauliMat(m), outRho)
\* average gate fidelity of W against target U: <<numerator (real ring elt), integer denominator>>
GateFid(U, W) == LET t == MTrace(MMul(MDag(U), W)) IN <<RAdd(RAbsSq(t), RInt(D)), D * (D + 1)>>

Init == gs = <<>> /\ V = MId(D) /\ out = <<>>
AddGate == /\ Len(gs) < MaxGates /\ out = <<>>
           /\ \E g \in Alphabet : gs' = Append(gs, g) /\ V' = MMul(GateMat(g), V)
           /\ UNCHANGED out
\* the tomography read-out: everything the harness compares
Tomograph == /\ out = <<>> /\ Len(gs) > 0
             /\ out' = [rho |-> Rho(Psi(V)), choi |-> Choi(V), fidSelf |-> GateFid(V, V), fidId |-> GateFid(MId(D), V),
                        symmetric |-> (MTranspose(V) = V)]
             /\ UNCHANGED <<gs, V>>
Next == AddGate \/ Tomograph
Spec == Init /\ [][Next]_vars

\* ---- properties ----
\* C15: the protocol reconstructs |psi><psi| (Hermitian, unit trace) for every state in scope
StateTomoCorrect == LET r == Rho(Psi(V)) IN r = Outer(Psi(V)) /\ MTrace(r) = One /\ MDag(r) = r
\* C16: the Choi matrix is pinned to the experiments, and the column-stacking reference agrees with it
ChoiPinned == ChoiDefines(V, Choi(V))
\* the row-major vectorisation (outer(V.flatten(), conj)) coincides with it for symmetric V ...
SymmetricAgree == (MTranspose(V) = V) => (ChoiRowMajor(V) = Choi(V))
\* ... but is NOT the experiments' Choi matrix in general (this "invariant" is expected to FAIL: model-level refutation of
\* the row-major reference)
RowMajorIsChoi == ChoiRowMajor(V) = Choi(V)
\* gate fidelity: one for the gate itself, never above one
FidelityBounds == GateFid(V, V) = <<RInt(D * (D + 1)), D * (D + 1)>> /\ RLeq(GateFid(MId(D), V)[1], RInt(D * (D + 1)))
=============================================================================
