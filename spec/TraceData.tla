---- MODULE TraceData ----
(* placeholder: the harness writes the recorded traces of a run into a module of this name in its work directory *)
EXTENDS Integers
Z == <<0,0,0,0,0>>
O == <<1,0,0,0,0>>
Traces == <<>>
====
