-------------------------- MODULE LwCircuitTrace --------------------------
(***************************************************************************)
(* Trace specification: validates executions RECORDED from the real        *)
(* lightworks Circuit objects against the LwCircuit actions.               *)
(*                                                                         *)
(* TraceData.Traces is a sequence of traces; a trace is a sequence of      *)
(* events, one per public call:                                            *)
(*   [op, t, a, res, obs]   op = call name, t = target object, a = args    *)
(*   (API values as ids), res = "ok" | "raise", obs = observation of the   *)
(*   target after the call, toks = one token per object (equal tokens <=>  *)
(*   equal observable state: frame conditions), pre = target before:       *)
(*   [live, nm (n_modes), im (input_modes), upos / apos (0-based positions *)
(*    of user / hidden modes), hin / hout (<<pos, n>> pairs), U (U_full    *)
(*    quantised to the ring, position order; <<>> when not numeric),       *)
(*    grp (a group is present), nadj (a non-adjacent BS is present),       *)
(*    nspec (number of components)]                                        *)
(* The first event is [op |-> "init", circ |-> <<abstract records>>, num,  *)
(* obs].  Each step applies the SAME operators as LwCircuit (XValid /      *)
(* XApply / AddSem ...) to the logged arguments and compares the result    *)
(* with the logged observation, clause by clause; `bad` names the failing  *)
(* clauses.  Verdicts are total: a trace is never stuck.                   *)
(***************************************************************************)
EXTENDS LwCircuitDefs, TraceData

VARIABLES tid, l, circ, sem, bad, fin
vars == <<tid, l, circ, sem, bad, fin>>

Tr == Traces[tid]
Ev == Tr[l]
Num == Tr[1].num
NObjT == Len(Tr[1].circ)
PrevToks == Tr[l - 1].toks

SemN(c) == IF Num /\ c.nu >= 0 THEN Sem(c) ELSE <<>>
Init == /\ tid \in 1..Len(Traces)
        /\ l = 2
        /\ circ = Traces[tid][1].circ
        /\ sem = [o \in 1..Len(Traces[tid][1].circ) |-> IF Traces[tid][1].num /\ Traces[tid][1].circ[o].nu >= 0 THEN Sem(Traces[tid][1].circ[o]) ELSE <<>>]
        /\ bad = {}
        /\ fin = FALSE

\* ---- symbolic (continuous) values: ids >= 2000 are valid values outside the ring ----
Sym(x) == x >= 2000
BsValidT(c, m1, m2, rid, cv, lq) ==
   ModeOk(c, m1) /\ ModeOk(c, m2) /\ m1 # m2 /\ (rid \in 0..2 \/ Sym(rid)) /\ cv \in {"Rx", "H"} /\ (lq \in 0..2 \/ Sym(lq))
PsValidT(c, m, pid, lq) == ModeOk(c, m) /\ (pid \in 0..7 \/ Sym(pid)) /\ (lq \in 0..2 \/ Sym(lq))
LossValidT(c, m, q) == ModeOk(c, m) /\ (q \in 0..2 \/ Sym(q))

\* ---- what the specification says about the logged call ------------------
\* <<valid, c2, newOps (flat ops appended, for the incremental semantics) or "special">>
Valid(e) ==
   LET c == circ[e.t]  a == e.a IN
   IF e.op = "bs" THEN BsValidT(c, a[1], a[2], a[3], a[4], a[5])
   ELSE IF e.op = "ps" THEN PsValidT(c, a[1], a[2], a[3])
   ELSE IF e.op = "loss" THEN LossValidT(c, a[1], a[2])
   ELSE IF e.op = "bar" THEN BarValid(c, a[1])
   ELSE IF e.op = "swap" THEN SwapsValid(c, a[1], a[2])
   ELSE IF e.op = "u" THEN UValid(c, a[1], a[3])
   ELSE IF e.op = "herald" THEN HeraldValid(c, a[1], a[2], a[3])
   ELSE IF e.op = "add" THEN circ[a[1]].nu >= 0 /\ AddValid(c, circ[a[1]], a[2])
   ELSE IF e.op = "plus" THEN PlusValid(circ[a[1]], circ[a[2]])
   ELSE IF e.op \in {"new", "newu"} THEN a[1] >= 1
   ELSE TRUE
After(e, perm) ==          \* the abstract circuit of the target after the call
   LET c == circ[e.t]  a == e.a IN
   IF e.op = "bs" THEN BsApply(c, a[1], a[2], a[3], a[4], a[5])
   ELSE IF e.op = "ps" THEN PsApply(c, a[1], a[2], a[3])
   ELSE IF e.op = "loss" THEN LossApply(c, a[1], a[2])
   ELSE IF e.op = "bar" THEN BarApply(c, a[1])
   ELSE IF e.op = "swap" THEN SwapsApply(c, a[1], a[2])
   ELSE IF e.op = "u" THEN UApply(c, a[1], a[3], a[2])
   ELSE IF e.op = "herald" THEN HeraldApply(c, a[1], a[2], a[3])
   ELSE IF e.op = "add" THEN AddApply(c, circ[a[1]], a[2], a[3])
   ELSE IF e.op = "plus" THEN PlusApply(circ[a[1]], circ[a[2]])
   ELSE IF e.op = "copy" THEN circ[a[1]]
   ELSE IF e.op = "new" THEN New(a[1])                                   \* Circuit(n)
   ELSE IF e.op = "newu" THEN [New(a[1]) EXCEPT !.ops = <<OpU([k \in 1..a[1] |-> k], a[2])>>]      \* Unitary(matrix): one block over all modes
   ELSE IF e.op = "unpack" THEN UnpackApply(c, [j \in 1..Len(c.anc) |-> e.pre.apos[perm[j]] + 1])
   ELSE c
NewOps(e, c2) ==
   LET a == e.a IN
   IF e.op = "bs" THEN <<OpBs(a[1] + 1, a[2] + 1, a[3], a[4])>> \o LossTail(<<a[1] + 1, a[2] + 1>>, a[5])
   ELSE IF e.op = "ps" THEN <<OpPs(a[1] + 1, a[2])>> \o LossTail(<<a[1] + 1>>, a[3])
   ELSE IF e.op \in {"loss", "swap", "u"} THEN <<c2.ops[Len(c2.ops)]>>
   ELSE <<>>
SemAfter(e, c2, perm) ==
   LET c == circ[e.t]  a == e.a IN
   IF ~Num THEN <<>>
   ELSE IF e.op \in {"bs", "ps", "loss", "swap", "u"} THEN AppendAllSem(c, NewOps(e, c2), sem[e.t], <<>>)
   ELSE IF e.op = "add" THEN AddSem(c, circ[a[1]], a[2], sem[e.t], sem[a[1]])
   ELSE IF e.op \in {"plus", "new", "newu"} THEN Sem(c2)
   ELSE IF e.op = "copy" THEN sem[a[1]]
   ELSE IF e.op = "unpack" THEN UnpackSem(c, [j \in 1..Len(c.anc) |-> e.pre.apos[perm[j]] + 1], sem[e.t])
   ELSE sem[e.t]

\* ---- conformance of one observation with one abstract circuit ------------
\* position (1-based) of spec index x (users then ancillas) under ancilla bijection perm
PosOf(ob, c, perm, x) == IF x <= c.nu THEN ob.upos[x] + 1 ELSE ob.apos[perm[x - c.nu]] + 1
HeraldNum(h, p) == LET S == {k \in 1..Len(h) : h[k][1] = p} IN IF S = {} THEN -1 ELSE h[CHOOSE k \in S : TRUE][2]
PermOk(ob, c, perm) == \A j \in 1..Len(c.anc) : HeraldNum(ob.hin, ob.apos[perm[j]]) = c.anc[j] /\ HeraldNum(ob.hout, ob.apos[perm[j]]) = c.anc[j]
BlockMatches(ob, c, M, perm) ==
   \A x \in 1..Dim(c), y \in 1..Dim(c) : ob.U[PosOf(ob, c, perm, x)][PosOf(ob, c, perm, y)] = M[x][y]
StructClauses(ob, c) ==
     (IF ob.nm = Dim(c) THEN {} ELSE {"n_modes"})
\cup (IF Len(ob.apos) = Len(c.anc) /\ Len(ob.upos) = c.nu THEN {} ELSE {"ancilla_count"})
\cup (IF ob.im = InputModes(c) THEN {} ELSE {"input_modes"})
HeraldClauses(ob, c) ==
   IF Len(ob.upos) # c.nu \/ Len(ob.apos) # Len(c.anc) THEN {}
   ELSE LET expIn  == {<<ob.upos[c.hord[k][1]], c.hord[k][3]>> : k \in 1..Len(c.hord)}
            expOut == {<<ob.upos[c.hord[k][2]], c.hord[k][3]>> : k \in 1..Len(c.hord)}
            anc    == {ob.apos[j] : j \in 1..Len(ob.apos)}
            gotIn  == {ob.hin[k] : k \in {k \in 1..Len(ob.hin) : ob.hin[k][1] \notin anc}}
            gotOut == {ob.hout[k] : k \in {k \in 1..Len(ob.hout) : ob.hout[k][1] \notin anc}}
        IN (IF gotIn = expIn /\ gotOut = expOut THEN {} ELSE {"heralds"})
           \cup (IF \E perm \in Permutations(1..Len(c.anc)) : PermOk(ob, c, perm) THEN {} ELSE {"ancilla_herald"})
Perms(c) == Permutations(1..Len(c.anc))
NumClauses(ob, c, M) ==
   IF ~Num \/ ob.U = <<>> THEN {}
   ELSE IF Len(ob.U) # DimL(c) THEN {"dim"}
   ELSE (IF IsUnitary(ob.U) THEN {} ELSE {"unitary"})
        \cup (IF \E perm \in Perms(c) : PermOk(ob, c, perm) /\ BlockMatches(ob, c, M, perm) THEN {} ELSE {"U"})
Clauses(ob, c, M) ==
   LET s == StructClauses(ob, c) IN
   IF s # {} THEN s
   ELSE IF ob.uerr THEN HeraldClauses(ob, c) \cup {"compile"}       \* U_full raised or is not a ring value
   ELSE HeraldClauses(ob, c) \cup NumClauses(ob, c, M)

\* ---- the step -------------------------------------------------------------
Others(e) == {o \in 1..NObjT : o # e.t}
FrameBad(e, S) == IF \A o \in S : PrevToks[o] = e.toks[o] THEN {} ELSE {"frame"}
RewriteBad(e) ==
   LET ob == e.obs  pv == e.pre IN
     (IF e.op = "unpack" /\ ob.grp THEN {"group_remains"} ELSE {})
\cup (IF e.op = "nonadj" /\ ob.nadj THEN {"nonadjacent_remains"} ELSE {})
\cup (IF e.op = "compress" /\ ob.nspec > pv.nspec THEN {"components_grew"} ELSE {})
\* ctok: token of (mode count, input size, heralds, unitary) - unpack_groups may legitimately un-hide herald modes
\cup (IF e.op \in {"unpack", "compress", "nonadj"} /\ pv.ctok # ob.ctok THEN {"rewrite_changed"} ELSE {})
\* choose the ancilla bijection the observation supports (needed only by unpack)
GoodPerm(e) ==
   LET c == circ[e.t]  P == {p \in Perms(c) : PermOk(e.pre, c, p) /\ (~Num \/ e.pre.U = <<>> \/ BlockMatches(e.pre, c, sem[e.t], p))}
   IN IF P = {} THEN [j \in 1..Len(c.anc) |-> j] ELSE CHOOSE p \in P : TRUE
Step ==
   /\ ~fin /\ l <= Len(Tr)
   /\ LET e == Ev IN
      IF e.res = "raise" THEN
           /\ bad' = (IF Valid(e) THEN {"valid_call_raised"} ELSE {}) \cup FrameBad(e, 1..NObjT)
           /\ UNCHANGED <<circ, sem>>
           /\ fin' = (bad' # {})
      ELSE IF ~Valid(e) THEN           \* implementation accepted what the specification rejects: outside the properties
           \* ... unless the accepted call leaves a circuit that no longer compiles (U_full must always exist and be unitary)
           /\ bad' = {"DRIFT"} \cup (IF e.obs.uerr THEN {"compile"} ELSE {}) /\ UNCHANGED <<circ, sem>> /\ fin' = TRUE
      ELSE LET perm == GoodPerm(e)
               c2 == After(e, perm)
               M2 == SemAfter(e, c2, perm)
           IN /\ circ' = [circ EXCEPT ![e.t] = c2]
              /\ sem' = [sem EXCEPT ![e.t] = M2]
              /\ bad' = Clauses(e.obs, c2, M2) \cup FrameBad(e, Others(e)) \cup RewriteBad(e)
              /\ fin' = (bad' # {})
   /\ l' = l + 1 /\ tid' = tid
Done == (fin \/ l > Len(Tr)) /\ UNCHANGED vars
Next == Step \/ Done
Spec == Init /\ [][Next]_vars

\* the verdict: TLC reports every <<tid, event index, failing clauses>>
Ok == bad = {} \/ (PrintT(<<"BAD", tid, l - 1, bad>>) /\ FALSE)
\* at the end of a structure-only trace the abstract TERM is exported for the evaluator
TermOut == (l > Len(Tr) /\ ~fin /\ ~Num) => PrintT(<<"TERM", tid, circ>>)
\* progress witness for the acceptance count
Accepted == (l > Len(Tr) /\ ~fin) => PrintT(<<"ACCEPTED", tid>>)
=============================================================================
