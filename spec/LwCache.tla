------------------------------ MODULE LwCache ------------------------------
(***************************************************************************)
(* Configuration / snapshot / cached distribution of Sampler and           *)
(* QuickSampler, and the result attributes of Analyzer (C11).              *)
(*                                                                         *)
(* The world holds circuit objects A, B (and C) with the same components   *)
(* (a shared Parameter with value token pv, plus e[c] extra components     *)
(* appended in place) that differ ONLY in the photon number of their       *)
(* herald, and one PostSelection object X whose rule content psc can be    *)
(* changed in place.  cfg is the sampler's configuration.  DistKey is      *)
(* everything the output distribution mathematically depends on.           *)
(*                                                                         *)
(* The cache is implementation-shaped: snap is what the code compares to   *)
(* decide whether to recompute, cached / cont are the DistKeys the stored  *)
(* distribution / continuous distribution were computed for, used is the   *)
(* DistKey behind the last value handed to the caller.  Variant selects    *)
(* the mechanism:                                                          *)
(*   "pinned"   the mechanism of the pinned tree (snapshot without         *)
(*              heralds; QuickSampler.continuous_distribution unchecked)   *)
(*   "fixed"    snapshot with heralds, continuous distribution re-checked  *)
(*   "fixedps"  as fixed, and the post-selection snapshot is by content    *)
(* Fresh is the property: every read returns the distribution of the       *)
(* CURRENT configuration and does not raise.                               *)
(***************************************************************************)
EXTENDS Integers, Sequences, FiniteSets, TLC

CONSTANTS Kind,        \* "sampler" | "quick" | "analyzer"
          Variant,     \* "pinned" | "fixed" | "fixedps"
          MutatePS,    \* TRUE: the PostSelection object may be mutated in place
          Feat         \* enabled reconfiguration actions (the complete graph over ALL of them together is too large; it is
                       \* explored per feature set): subset of {"circuit", "edit", "param", "input", "source", "backend", "ps",
                       \* "pnr", "shared_source", "shared_detector", "analyzer_ps"}

VARIABLES w, cfg, snap, cached, cont, used, last, err, an
vars == <<w, cfg, snap, cached, cont, used, last, err, an>>
Circs == {"A", "B", "C", "D"}     \* A, B: herald on the same mode with 0 / 1 photons; C: herald on another mode; D: no loss element, herald on a third mode
HeraldOf(c) == IF c = "A" THEN 0 ELSE IF c = "B" THEN 1 ELSE IF c = "C" THEN 2 ELSE 3
UTok(c) == <<w.pv, w.e[c], c = "D">>
\* post-selection held by the quick sampler: 0 none, 1 the PostSelection object X (rule content w.psc, mutable in place),
\* 2 / 3 two closures made by ONE factory (same code object, different captured mode)
PSTok == IF cfg.ps = 0 THEN 0 ELSE IF cfg.ps = 1 THEN 1 + w.psc ELSE cfg.ps + 10
\* source held by the sampler: cfg.src = 0 a Source created for it with brightness token cfg.br; cfg.src = 1 the shared Source
\* object S whose brightness / purity (w.sb, w.sp) can be modified in place
SrcTok == IF cfg.src = 0 THEN <<cfg.br, 1>> ELSE <<w.sb, w.sp>>
\* detector: cfg.det = 0 the sampler's own perfect detector, 1 the shared Detector object D whose efficiency token w.deff is mutable
DetTok == IF cfg.det = 0 THEN 1 ELSE w.deff
DistKey == IF Kind = "quick" THEN <<UTok(cfg.circ), HeraldOf(cfg.circ), cfg.inp, PSTok, cfg.pnr>>
           ELSE <<UTok(cfg.circ), HeraldOf(cfg.circ), cfg.inp, SrcTok>>
\* what a sampling call's result depends on: the distribution AND the detector as it is NOW
SampleKey == IF Kind = "sampler" THEN <<DistKey, DetTok>> ELSE <<DistKey, 1>>
SnapOf ==
   IF Kind = "quick"
   THEN <<UTok(cfg.circ), cfg.inp, IF Variant = "fixedps" THEN PSTok ELSE cfg.ps, cfg.pnr>> \o (IF Variant = "pinned" THEN <<>> ELSE <<HeraldOf(cfg.circ)>>)
   ELSE <<UTok(cfg.circ), cfg.inp, cfg.be, SrcTok>> \o (IF Variant = "pinned" THEN <<>> ELSE <<HeraldOf(cfg.circ)>>)

\* "imperfect" in Feat: the object starts with the shared Detector at efficiency token 2 (histories that sample with detection loss from the start)
Init == /\ w = [pv |-> 1, e |-> [c \in Circs |-> 0], psc |-> 0, sb |-> 1, sp |-> 1, deff |-> (IF "imperfect" \in Feat THEN 2 ELSE 1), aps |-> 0]
        /\ cfg = [circ |-> "A", inp |-> 1, br |-> 1, be |-> 1, ps |-> 0, pnr |-> 1, src |-> 0, det |-> (IF "imperfect" \in Feat THEN 1 ELSE 0)]
        /\ snap = <<>> /\ cached = <<>> /\ cont = <<>> /\ used = <<>>
        /\ last = <<"init", 0>> /\ err = FALSE
        /\ an = [has |-> FALSE, res |-> FALSE, exp |-> FALSE, psused |-> 0]

Frame == UNCHANGED <<snap, cached, cont, used, an>> /\ err' = FALSE
\* ---- reconfigurations (never touch the cache: the code recomputes lazily) ----
SetCircuit(c) == cfg.circ # c /\ cfg' = [cfg EXCEPT !.circ = c] /\ UNCHANGED w /\ last' = <<"set_circuit", c>> /\ Frame
EditCircuit(c) == w.e[c] = 0 /\ w' = [w EXCEPT !.e[c] = 1] /\ UNCHANGED cfg /\ last' = <<"edit_circuit", c>> /\ Frame
SetParam(v) == w.pv # v /\ w' = [w EXCEPT !.pv = v] /\ UNCHANGED cfg /\ last' = <<"set_param", v>> /\ Frame
SetInput(i) == cfg.inp # i /\ cfg' = [cfg EXCEPT !.inp = i] /\ UNCHANGED w /\ last' = <<"set_input", i>> /\ Frame
SetSource(b) == Kind = "sampler" /\ cfg.br # b /\ cfg' = [cfg EXCEPT !.br = b] /\ UNCHANGED w /\ last' = <<"set_source", b>> /\ Frame
SetBackend(b) == Kind = "sampler" /\ cfg.be # b /\ cfg' = [cfg EXCEPT !.be = b] /\ UNCHANGED w /\ last' = <<"set_backend", b>> /\ Frame
SetPostSelect(p) == Kind = "quick" /\ cfg.ps # p /\ cfg' = [cfg EXCEPT !.ps = p] /\ UNCHANGED w /\ last' = <<"set_ps", p>> /\ Frame
\* two in-place mutations of X: the first adds a rule on a mode without one, the second (X allows several rules per mode) on a mode that has one
MutatePostSelect == Kind = "quick" /\ MutatePS /\ w.psc < 2 /\ w' = [w EXCEPT !.psc = @ + 1] /\ UNCHANGED cfg /\ last' = <<"mutate_ps", 0>> /\ Frame
SetPnr(p) == Kind = "quick" /\ cfg.pnr # p /\ cfg' = [cfg EXCEPT !.pnr = p] /\ UNCHANGED w /\ last' = <<"set_pnr", p>> /\ Frame
\* the shared Source / Detector objects: assigned, then modified IN PLACE
UseSharedSource(x) == Kind = "sampler" /\ cfg.src # x /\ cfg' = [cfg EXCEPT !.src = x] /\ UNCHANGED w /\ last' = <<"use_shared_source", x>> /\ Frame
MutateSource(f, v) == Kind = "sampler" /\ w[f] # v /\ w' = [w EXCEPT ![f] = v] /\ UNCHANGED cfg /\ last' = <<"mutate_source", <<f, v>>>> /\ Frame
UseSharedDetector(x) == Kind = "sampler" /\ cfg.det # x /\ cfg' = [cfg EXCEPT !.det = x] /\ UNCHANGED w /\ last' = <<"use_shared_detector", x>> /\ Frame
MutateDetector(v) == Kind = "sampler" /\ w.deff # v /\ w' = [w EXCEPT !.deff = v] /\ UNCHANGED cfg /\ last' = <<"mutate_detector", v>> /\ Frame
\* the Analyzer's PostSelection object, modified in place between two analyze() calls
MutateAnalyzerPS == Kind = "analyzer" /\ w.aps = 0 /\ w' = [w EXCEPT !.aps = 1] /\ UNCHANGED cfg /\ last' = <<"mutate_analyzer_ps", 0>> /\ Frame

\* ---- reads ----
Stale == snap = <<>> \/ snap # SnapOf
Recompute == snap' = SnapOf /\ cached' = DistKey /\ cont' = DistKey
\* probability_distribution
Keyed(name, k) == IF name = "read_dist" THEN k ELSE <<k, IF Kind = "sampler" /\ name # "sample_n_out" THEN DetTok ELSE 1>>   \* sample_N_outputs ignores the efficiency
ReadDist(name) ==
   /\ Kind \in {"sampler", "quick"}
   /\ IF Stale THEN Recompute /\ used' = Keyed(name, DistKey) ELSE UNCHANGED <<snap, cached, cont>> /\ used' = Keyed(name, cached)
   /\ UNCHANGED <<w, cfg, an>> /\ err' = FALSE /\ last' = <<name, 0>>
\* continuous_distribution, used by sample()
ReadCont ==
   /\ Kind \in {"sampler", "quick"}
   /\ IF Kind = "quick" /\ Variant = "pinned"
      THEN /\ UNCHANGED <<snap, cached, cont>>               \* returned as is, never re-checked
           /\ IF cont = <<>> THEN err' = TRUE /\ used' = <<>> ELSE err' = FALSE /\ used' = Keyed("sample", cont)
      ELSE /\ IF Stale THEN Recompute /\ used' = Keyed("sample", DistKey) ELSE UNCHANGED <<snap, cached, cont>> /\ used' = Keyed("sample", cont)
           /\ err' = FALSE
   /\ UNCHANGED <<w, cfg, an>> /\ last' = <<"sample", 0>>
\* ---- Analyzer: result attributes ----
Analyze(withExp) ==
   /\ Kind = "analyzer"
   /\ an' = [has |-> (an.has \/ withExp),
             res |-> IF Variant = "pinned" THEN (an.has \/ withExp) ELSE withExp,    \* does the returned result carry error_rate?
             exp |-> withExp,
             psused |-> w.aps]           \* the outputs are filtered with the post-selection rules as they are NOW (no cache)
   /\ UNCHANGED <<w, cfg, snap, cached, cont, used>> /\ err' = FALSE /\ last' = <<"analyze", IF withExp THEN 1 ELSE 0>>

Next == \/ Kind # "analyzer" /\ "circuit" \in Feat /\ \E c \in Circs : SetCircuit(c)
        \/ Kind # "analyzer" /\ "edit" \in Feat /\ \E c \in Circs : EditCircuit(c)
        \/ Kind # "analyzer" /\ "param" \in Feat /\ \E v \in 1..3 : SetParam(v)       \* value 3 differs from value 1 by a step of 2e-7
        \/ Kind # "analyzer" /\ "input" \in Feat /\ \E v \in 1..3 : SetInput(v)       \* input 3 is the vacuum
        \/ "source" \in Feat /\ \E v \in 1..2 : SetSource(v)
        \/ "backend" \in Feat /\ \E v \in 1..2 : SetBackend(v)
        \/ "ps" \in Feat /\ \E p \in 0..3 : SetPostSelect(p)
        \/ "pnr" \in Feat /\ \E p \in 0..1 : SetPnr(p)
        \/ "shared_source" \in Feat /\ ((\E p \in 0..1 : UseSharedSource(p)) \/ \E v \in 1..2 : MutateSource("sb", v) \/ MutateSource("sp", v))
        \/ "shared_detector" \in Feat /\ ((\E p \in 0..1 : UseSharedDetector(p)) \/ \E v \in 1..2 : MutateDetector(v))
        \/ "ps" \in Feat /\ MutatePostSelect
        \/ "analyzer_ps" \in Feat /\ MutateAnalyzerPS
        \/ ReadDist("read_dist") \/ ReadDist("sample_n_in") \/ ReadDist("sample_n_out") \/ ReadCont
        \/ \E x \in BOOLEAN : Analyze(x)
Spec == Init /\ [][Next]_vars

Reads == {"read_dist", "sample_n_in", "sample_n_out", "sample"}
\* C11: a read returns exactly what a freshly created object with the same settings would, and never raises
Fresh == [][\A nm \in Reads : last'[1] = nm => (~err' /\ used' = Keyed(nm, DistKey)')]_vars
\* C11: an analysis result contains only quantities computed by that call
AnalysisOwn == [][last'[1] = "analyze" => (an'.res = an'.exp /\ an'.psused = w'.aps)]_vars
=============================================================================
