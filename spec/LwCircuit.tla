----------------------------- MODULE LwCircuit -----------------------------
(***************************************************************************)
(* The Circuit object universe as a state machine: one action per public   *)
(* construction call, taking the same arguments as the Python call (API    *)
(* mode numbers), accepted or rejected exactly as the documentation says.  *)
(* The call history `prog` is part of the state, so every reachable state  *)
(* is a construction program together with its expected abstract result;   *)
(* TLC's state dump is the list of programs the harness replays.           *)
(*                                                                         *)
(* sem[o] carries the exact transfer matrix of object o incrementally      *)
(* (one product per call, the compositional reading of each call);         *)
(* SemAgrees states that it coincides with the flattened semantics.        *)
(***************************************************************************)
EXTENDS LwEmuDefs

CONSTANTS
   Scenario,      \* "single" : object 1 = empty circuit with nu \in NUs
                  \* "tmpl"   : object 1 = marked parent(PNu), 2 = marked template(3), 3 = marked template(2)
   NUs, PNu,
   TNu,           \* "tmpl": <<modes of template object 2, modes of template object 3>>
   NObj,          \* object ids 1..NObj (unallocated ones are NullC)
   Numeric,       \* carry sem or not
   MaxLen,        \* bound on Len(prog)
   MaxRej,        \* bound on rejected calls per program
   MaxAnc,        \* bound on ancillas of any object
   Kinds,         \* subset of {"bs","ps","loss","bar","swap","u","herald","add","plus","copy","unpack","compress","nonadj"}
   BadModes,      \* invalid API mode arguments tried: subset of {-1, 99, 90, 91}; 99 = "n_modes", 90 = True, 91 = 1.5
   Rids, Convs, Lqs, Pids, LossQs,   \* VALID argument values tried (ids)
   BadVals,       \* TRUE: also try one invalid value per argument (reflectivity -0.5 / 1.5, convention "Q", loss -0.1 / 1.5)
   SwapLevel,     \* 0 none, 1 transpositions, 2 + 3-cycles and one-mode identity swaps, 3 + invalid dictionaries
   UIds,          \* unitary block ids, e.g. {"H","SH","C3"}
   HeraldNs,      \* herald photon numbers tried
   Targets,       \* objects that construction calls may target
   AddPairs,      \* set of <<parent, sub>> pairs allowed for add
   TmplLoss,      \* TRUE: the templates contain a loss element
   TmplU,         \* TRUE: templates with at least three lines end in a 3-line unitary block (on their last three lines)
   Ordered,       \* TRUE: programs are generated in canonical stage order (cuts interleavings of independent calls)
   MaxHer,        \* <<h1, h2, ...>> heralds declared per object
   MaxAdds,       \* add calls per program
   MaxComp,       \* plain component calls (bs, ps, loss, bar, swap, u) per program
   NPar,          \* number of Parameter objects (0: none); parameter p is referred to by the argument value 1000 + p
   ParKinds,      \* <<kind of parameter 1, ...>>, kind \in {"phase", "refl", "loss"} (how the adapter turns a value id into a number)
   ParInit,       \* <<initial value id of parameter 1, ...>>
   ParVals,       \* value ids tried by SetPar (9 = a value that is invalid for the component, 10 = NaN: invalid for every component)
   DispArgs,      \* display option tuples tried: <<type, display_loss, show_values, label-length offset or 99 for None>>
   DispMin,       \* display calls only after at least this many calls
   ModeCap,       \* valid mode arguments tried are 0 .. min(nu, ModeCap) - 1
   MaxPhot,       \* read actions: user photons injected (0..MaxPhot)
   PSU,           \* read actions: post-selection rule sets tried; a rule set is a set of <<modes, allowed counts>> (tuples)
   RejLast        \* TRUE: a rejected call ends the program (a rejected call changes nothing, so nothing new follows it)

VARIABLES circ, sem, prog, op, pval,
          res        \* result of the last read action (simulate / sampler distribution / analyze / quick sampler), else <<>>
vars == <<circ, sem, prog, op, pval, res>>
Objs == 1..NObj

\* ---- scenario templates ---------------------------------------------------
\* a distinct phase on every line plus couplers between neighbours, so that any mis-routing of any
\* line changes the matrix (identity sub-circuits would hide wiring errors)
TemplateOps(n) == [i \in 1..n |-> OpPs(i, i)] \o [i \in 1..(n-1) |-> OpBs(i, i+1, 1, IF i % 2 = 1 THEN "Rx" ELSE "H")]
                  \o (IF TmplU /\ n >= 3 THEN <<OpU(<<n - 2, n - 1, n>>, "C3")>> ELSE <<>>)
                  \o (IF TmplLoss THEN <<OpLoss(1, 1)>> ELSE <<>>)
ParentOps(n) == <<OpPs(1, 3)>> \o [i \in 1..(n-1) |-> OpBs(i, i+1, 1, "Rx")]
InitCircs ==
   IF Scenario = "single" THEN { [o \in Objs |-> IF o = 1 THEN New(n) ELSE NullC] : n \in NUs }
   ELSE IF Scenario = "pair" THEN { [o \in Objs |-> IF o = 1 THEN New(PNu) ELSE IF o = 2 THEN New(2) ELSE NullC] }
   ELSE { [o \in Objs |-> IF o = 1 THEN [New(PNu) EXCEPT !.ops = ParentOps(PNu)]
                          ELSE IF o = 2 THEN [New(TNu[1]) EXCEPT !.ops = TemplateOps(TNu[1])]
                          ELSE IF o = 3 THEN [New(TNu[2]) EXCEPT !.ops = TemplateOps(TNu[2])]
                          ELSE NullC] }
SemOrNone(c) == IF Numeric /\ c.nu >= 0 THEN Sem(c) ELSE <<>>
\* with parameters the matrix is re-read from the op list with the CURRENT values (that is what "live" means);
\* without parameters it is carried incrementally (inc)
SemNew(c2, inc) == IF ~Numeric THEN <<>> ELSE IF NPar = 0 THEN inc ELSE SemOrErr(c2, pval)
Init == /\ circ \in InitCircs
        /\ sem = [o \in Objs |-> SemOrNone(circ[o])]
        /\ prog = <<>>
        /\ op = "init"
        /\ pval = ParInit
        /\ res = <<>>

Live(o) == circ[o].nu >= 0
RejCount == Len(SelectSeq(prog, LAMBDA e : e[1] = "rej"))
\* canonical stage of a call in Scenario "tmpl": heralds on 3, heralds on 2, nesting add (2 <- 3), adds to the parent,
\* probes on the parent, later edits of the sub-circuits
StageOf(name, t, args) ==
   IF name = "herald" THEN (IF t = 3 THEN 1 ELSE IF t = 2 THEN 2 ELSE 5)
   ELSE IF name = "add" THEN (IF t = 1 THEN 4 ELSE 3)
   ELSE IF name = "probeall" THEN 5
   ELSE IF name = "edit" THEN 6
   ELSE IF t = 1 THEN 5 ELSE 6
StageOk(name, t, args) ==
   IF ~Ordered \/ Len(prog) = 0 THEN TRUE
   ELSE LET e == prog[Len(prog)] IN StageOf(e[2], e[3], <<>>) <= StageOf(name, t, args)
NAdds == Len(SelectSeq(prog, LAMBDA e : e[2] = "add"))
CompKinds == {"bs", "ps", "loss", "bar", "swap", "u"}
NComp == Len(SelectSeq(prog, LAMBDA e : e[2] \in CompKinds))
Accept(t, name, args, c2, M2) ==
   /\ StageOk(name, t, args)
   /\ (name = "herald" => Len(circ[t].hord) < MaxHer[t])
   /\ (name = "add" => NAdds < MaxAdds)
   /\ (name \in CompKinds => NComp < MaxComp)
   /\ circ' = [circ EXCEPT ![t] = c2]
   /\ sem' = [sem EXCEPT ![t] = SemNew(c2, M2)]
   /\ prog' = Append(prog, <<"ok", name, t>> \o args)
   /\ op' = name
   /\ UNCHANGED pval /\ res' = <<>>
Reject(t, name, args) ==
   /\ RejCount < MaxRej
   /\ (name \in CompKinds => NComp < MaxComp)
   /\ StageOk(name, t, args)
   /\ UNCHANGED <<circ, sem, pval>> /\ res' = <<>>
   /\ prog' = Append(prog, <<"rej", name, t>> \o args)
   /\ op' = "rej"
AppendOps(t, c2, newOps) == AppendAllSem(circ[t], newOps, sem[t], pval)

DoBs(t, m1, m2, rid, cv, lq) ==
   IF BsValid(circ[t], m1, m2, rid, cv, lq, pval)
   THEN LET c2 == BsApply(circ[t], m1, m2, rid, cv, lq) IN
        Accept(t, "bs", <<m1, m2, rid, cv, lq>>, c2,
               AppendOps(t, c2, <<OpBs(m1 + 1, m2 + 1, rid, cv)>> \o LossTail(<<m1 + 1, m2 + 1>>, lq)))
   ELSE Reject(t, "bs", <<m1, m2, rid, cv, lq>>)
DoPs(t, m, pid, lq) ==
   IF PsValid(circ[t], m, pid, lq, pval)
   THEN LET c2 == PsApply(circ[t], m, pid, lq) IN
        Accept(t, "ps", <<m, pid, lq>>, c2, AppendOps(t, c2, <<OpPs(m + 1, pid)>> \o LossTail(<<m + 1>>, lq)))
   ELSE Reject(t, "ps", <<m, pid, lq>>)
DoLoss(t, m, q) ==
   IF LossValid(circ[t], m, q, pval)
   THEN LET c2 == LossApply(circ[t], m, q) IN Accept(t, "loss", <<m, q>>, c2, AppendOps(t, c2, <<OpLoss(m + 1, q)>>))
   ELSE Reject(t, "loss", <<m, q>>)
DoBar(t, ms) ==
   IF BarValid(circ[t], ms)
   THEN Accept(t, "bar", <<ms>>, BarApply(circ[t], ms), sem[t])          \* a barrier is the identity
   ELSE Reject(t, "bar", <<ms>>)
DoSwap(t, from, to) ==
   IF SwapsValid(circ[t], from, to)
   THEN LET c2 == SwapsApply(circ[t], from, to) IN
        Accept(t, "swap", <<from, to>>, c2, AppendOps(t, c2, <<c2.ops[Len(c2.ops)]>>))
   ELSE Reject(t, "swap", <<from, to>>)
DoU(t, m, id) ==
   LET k == IF id \in {"C3", "B3"} THEN 3 ELSE 2 IN
   IF UValid(circ[t], m, k)
   THEN LET c2 == UApply(circ[t], m, k, id) IN Accept(t, "u", <<m, id>>, c2, AppendOps(t, c2, <<c2.ops[Len(c2.ops)]>>))
   ELSE Reject(t, "u", <<m, id>>)
DoHerald(t, n, i, o) ==
   IF HeraldValid(circ[t], n, i, o)
   THEN Accept(t, "herald", <<n, i, o>>, HeraldApply(circ[t], n, i, o), sem[t])
   ELSE Reject(t, "herald", <<n, i, o>>)
DoAdd(p, s, m, grp) ==
   /\ Live(s)
   /\ IF AddValid(circ[p], circ[s], m)
      THEN /\ Len(circ[p].anc) + Len(circ[s].anc) + Len(circ[s].hord) <= MaxAnc
           /\ Accept(p, "add", <<s, m, grp>>, AddApply(circ[p], circ[s], m, grp),
                     AddSem(circ[p], circ[s], m, sem[p], sem[s]))
      ELSE Reject(p, "add", <<s, m, grp>>)
DoPlus(t, a, b) ==
   /\ ~Live(t) /\ Live(a) /\ Live(b)
   /\ IF PlusValid(circ[a], circ[b])
      THEN LET c2 == PlusApply(circ[a], circ[b]) IN
           Accept(t, "plus", <<a, b>>, c2, IF Numeric THEN MMul(ReEmbed(sem[b],
                     [i \in 1..DimL(circ[b]) |-> IF i <= circ[b].nu THEN i ELSE i + NLoss(circ[a].ops)], DimL(c2)),
                     MPad(sem[a], DimL(c2))) ELSE <<>>)
      ELSE Reject(a, "plus", <<a, b>>)
DoCopy(t, s) ==
   /\ ~Live(t) /\ Live(s)
   /\ Accept(t, "copy", <<s>>, circ[s], sem[s])
DoCopyFrozen(t, s) ==
   /\ ~Live(t) /\ Live(s)
   /\ LET c2 == [circ[s] EXCEPT !.ops = FreezeOps(@, pval)] IN
      /\ circ' = [circ EXCEPT ![t] = c2]
      /\ sem' = [sem EXCEPT ![t] = IF Numeric THEN SemOrErr(c2, <<>>) ELSE <<>>]     \* evaluated WITHOUT any parameter: it has none
      /\ prog' = Append(prog, <<"ok", "copyf", t, s>>)
      /\ op' = "copyf" /\ UNCHANGED pval /\ res' = <<>>
\* Parameter.set on parameter p (accepted; bounds are LwParams' business): every circuit that mentions p reports the new value
DoSetPar(p, v) ==
   /\ pval[p] # v
   /\ pval' = [pval EXCEPT ![p] = v]
   /\ UNCHANGED circ
   /\ sem' = [o \in Objs |-> IF Numeric /\ Live(o) /\ p \in ParamsOf(circ[o].ops) THEN SemOrErr(circ[o], pval') ELSE sem[o]]
   /\ prog' = Append(prog, <<"ok", "setpar", 0, p, v>>)
   /\ op' = "setpar" /\ res' = <<>>
\* display: read-only; accepted iff the type is known and the label list (if any) has one entry per user-visible mode
DisplayOk(c, a) == a[1] \in {"svg", "mpl"} /\ (a[4] = 99 \/ a[4] = 0)
DoDisplay(t, a) ==
   /\ Len(prog) >= DispMin
   /\ UNCHANGED <<circ, sem, pval>> /\ res' = <<>>
   /\ prog' = Append(prog, <<IF DisplayOk(circ[t], a) THEN "ok" ELSE "rej", "display", t>> \o a)
   /\ op' = "display"
\* the in-place rewrites: the abstract circuit keeps a representative op list; the contract is that the
\* transformation, heralds and input size do not change (structure postconditions are judged on the
\* recorded structure, see LwCircuitTrace)
DoUnpack(t) ==
   /\ Len(circ[t].anc) = 0
   /\ Accept(t, "unpack", <<>>, UnpackApply(circ[t], <<>>), sem[t])
\* probe: a distinct phase on EVERY user mode of t (any mis-numbering of user modes after additions shows)
ProbeOps(c) == [i \in 1..c.nu |-> OpPs(i, (2 * i + 1) % 8)]
DoProbeAll(t) ==
   /\ NAdds > 0 /\ ~ \E k \in 1..Len(prog) : prog[k][2] = "probeall"
   /\ LET c2 == [circ[t] EXCEPT !.ops = @ \o ProbeOps(circ[t])] IN
      Accept(t, "probeall", <<>>, c2, AppendOps(t, c2, ProbeOps(circ[t])))
\* a later edit of a sub-circuit that was already added somewhere (the parent must not notice)
DoEdit(t) ==
   /\ \E k \in 1..Len(prog) : prog[k][2] = "add" /\ prog[k][4] = t
   /\ ~ \E k \in 1..Len(prog) : prog[k][2] = "edit" /\ prog[k][3] = t
   /\ LET c2 == PsApply(circ[t], 0, 2, 0) IN Accept(t, "edit", <<>>, c2, AppendOps(t, c2, <<OpPs(1, 2)>>))
DoCompress(t) == Accept(t, "compress", <<>>, circ[t], sem[t])
DoNonAdj(t)   == Accept(t, "nonadj", <<>>, circ[t], sem[t])


\* ---- read actions (definitions of the emulator objects are in LwEmuDefs) ----
Inputs(c) == UNION {FockBasis(InputModes(c), k) : k \in 0..MaxPhot}
BadInputs(c) == {[k \in 1..(InputModes(c) + 1) |-> IF k = 1 THEN 1 ELSE 0]}
                \cup (IF InputModes(c) > 0 THEN {[k \in 1..InputModes(c) |-> IF k = 1 THEN -1 ELSE 0]} ELSE {})
Read(t, name, args, ok, value) ==
   /\ sem[t] # <<>>
   /\ UNCHANGED <<circ, sem, pval>>
   /\ prog' = Append(prog, <<IF ok THEN "ok" ELSE "rej", name, t>> \o args)
   /\ op' = name
   /\ res' = IF ok THEN value ELSE <<>>
DoSimulate(t, ins)        == Read(t, "simulate", <<ins>>, InputOk(circ[t], ins), SimTable(circ[t], sem[t], ins))
DoSamplerDist(t, ins)     == Read(t, "sdist", <<ins>>, InputOk(circ[t], ins), <<DistL(circ[t], ins), SamplerDist(circ[t], sem[t], ins)>>)
DoAnalyze(t, ins, ps)     == Read(t, "analyze", <<ins, ps>>, InputOk(circ[t], ins), <<DistL(circ[t], ins), AnalyzerTable(circ[t], sem[t], ins, ps)>>)
DoQuick(t, ins, ps, pnr)  == Read(t, "quick", <<ins, ps, pnr>>, InputOk(circ[t], ins),
                                  <<DistL(circ[t], ins), QuickTable(circ[t], sem[t], ins, ps, pnr)>>)
ReadKinds == {"simulate", "sdist", "analyze", "quick"}
Reads(t) ==
   LET c == circ[t] IN
      \/ "simulate" \in Kinds /\ \E ins \in Inputs(c) \cup (IF MaxRej > 0 THEN BadInputs(c) ELSE {}) : DoSimulate(t, ins)
      \/ "sdist" \in Kinds /\ \E ins \in Inputs(c) : DoSamplerDist(t, ins)
      \/ "analyze" \in Kinds /\ \E ins \in Inputs(c), ps \in PSU : PSFits(c, ps) /\ DoAnalyze(t, ins, ps)
      \/ "quick" \in Kinds /\ \E ins \in Inputs(c), ps \in PSU, pnr \in BOOLEAN : PSFits(c, ps) /\ DoQuick(t, ins, ps, pnr)

\* ---- argument universes ---------------------------------------------------
\* every combination of valid values, plus calls with exactly ONE invalid argument (others canonical)
GM(nu) == 0..(Min({nu, ModeCap}) - 1)
BM(nu) == {IF m = 99 THEN nu ELSE m : m \in BadModes}
BadR == IF BadVals THEN {-1, 3} ELSE {}
BadC == IF BadVals THEN {"Q"} ELSE {}
BadL == IF BadVals THEN {-1, 3} ELSE {}
BsArgs(nu) == (GM(nu) \X GM(nu) \X Rids \X Convs \X Lqs)
      \cup (BM(nu) \X {1} \X {1} \X {"Rx"} \X {0}) \cup ({0} \X BM(nu) \X {1} \X {"Rx"} \X {0})
      \cup ({0} \X {1} \X BadR \X {"Rx"} \X {0}) \cup ({0} \X {1} \X {1} \X BadC \X {0}) \cup ({0} \X {1} \X {1} \X {"H"} \X BadL)
PsArgs(nu) == (GM(nu) \X Pids \X Lqs) \cup (BM(nu) \X {1} \X {0}) \cup ({0} \X {1} \X BadL)
LossArgs(nu) == (GM(nu) \X LossQs) \cup (BM(nu) \X {1}) \cup ({0} \X BadL)
UArgs(nu) == ((GM(nu) \cup {m \in BM(nu) : m = nu}) \X UIds)
SwapU(nu) ==
   LET M == 0..(nu - 1)
       trans == { <<<<a, b>>, <<b, a>>>> : <<a, b>> \in {x \in M \X M : x[1] < x[2]} }
       cyc == { <<<<a, b, c>>, <<b, c, a>>>> : <<a, b, c>> \in {x \in M \X M \X M : x[1] # x[2] /\ x[2] # x[3] /\ x[1] # x[3] /\ x[1] < x[2] /\ x[1] < x[3]} }
       bad == { <<<<0>>, <<1>>>>, <<<<0, nu>>, <<nu, 0>>>>, <<<<0, 1>>, <<1, 1>>>> }
       fix == { <<<<a>>, <<a>>>> : a \in M }          \* a complete permutation of ONE mode: legal, the identity
   IN (IF SwapLevel >= 1 THEN trans ELSE {}) \cup (IF SwapLevel >= 2 THEN cyc \cup fix ELSE {}) \cup (IF SwapLevel >= 3 THEN bad ELSE {})
BarU(nu) == { <<>>, <<99>> } \cup { <<m>> : m \in 0..(nu - 1) } \cup { <<0, nu - 1>> } \cup (IF BadModes # {} THEN { <<nu>> } ELSE {})
HeraldArgs(nu) == (HeraldNs \X GM(nu) \X GM(nu)) \cup ({0} \X BM(nu) \X {0}) \cup ({0} \X {0} \X BM(nu))
AddModes(nu) == GM(nu) \cup BM(nu)

Calls(t) ==
   LET nu == circ[t].nu IN
         \/ "bs" \in Kinds /\ \E a \in BsArgs(nu) : DoBs(t, a[1], a[2], a[3], a[4], a[5])
         \/ "ps" \in Kinds /\ \E a \in PsArgs(nu) : DoPs(t, a[1], a[2], a[3])
         \/ "loss" \in Kinds /\ \E a \in LossArgs(nu) : DoLoss(t, a[1], a[2])
         \/ "bar" \in Kinds /\ \E ms \in BarU(nu) : DoBar(t, ms)
         \/ "swap" \in Kinds /\ \E sw \in SwapU(nu) : DoSwap(t, sw[1], sw[2])
         \/ "u" \in Kinds /\ \E a \in UArgs(nu) : DoU(t, a[1], a[2])
         \/ "herald" \in Kinds /\ \E a \in HeraldArgs(nu) :
                 (Scenario = "tmpl" => ~ \E k \in 1..Len(prog) : prog[k][2] = "add" /\ prog[k][4] = t) /\ DoHerald(t, a[1], a[2], a[3])
         \/ "add" \in Kinds /\ \E s \in Objs, m \in AddModes(nu), grp \in BOOLEAN : <<t, s>> \in AddPairs /\ DoAdd(t, s, m, grp)
         \* rewrites are specified for circuits that HAVE a transformation: while a parameter holds a value that is invalid for its
         \* component the circuit has none, and what a rewrite does then (the code re-validates and raises) is outside the properties
         \/ "unpack" \in Kinds /\ OpsCompile(circ[t].ops, pval) /\ DoUnpack(t)
         \/ "compress" \in Kinds /\ OpsCompile(circ[t].ops, pval) /\ DoCompress(t)
         \/ "nonadj" \in Kinds /\ OpsCompile(circ[t].ops, pval) /\ DoNonAdj(t)
         \/ "probeall" \in Kinds /\ DoProbeAll(t)
         \/ "edit" \in Kinds /\ DoEdit(t)
         \/ "copyf" \in Kinds /\ \E n \in Objs : DoCopyFrozen(n, t)
         \/ "setpar" \in Kinds /\ t = Min(Targets) /\ \E p \in 1..NPar, v \in ParVals : DoSetPar(p, v)
         \/ "plus" \in Kinds /\ \E n \in Objs, b \in Objs : DoPlus(n, t, b)
         \/ "copy" \in Kinds /\ \E n \in Objs : DoCopy(n, t)
Next ==
   /\ Len(prog) < MaxLen
   /\ (RejLast => op \notin ({"rej", "display"} \cup ReadKinds))
   /\ \E t \in Targets :
      /\ Live(t)
      \* when display / read actions are in scope the last slot of every program is reserved for them
      /\ \/ "display" \in Kinds /\ \E a \in DispArgs : DoDisplay(t, a)
         \/ Kinds \cap ReadKinds # {} /\ Len(prog) >= DispMin /\ Reads(t)
         \/ (Kinds \cap ({"display"} \cup ReadKinds) # {} => Len(prog) < MaxLen - 1) /\ Calls(t)
Spec == Init /\ [][Next]_vars

\* ---- properties -----------------------------------------------------------
\* C01 / C02: the full matrix is unitary, has one extra mode per loss element, U is its leading block
UnitaryInv == Numeric => \A o \in Objs : (Live(o) /\ sem[o] # <<>>) => IsUnitary(sem[o])
DimInv == Numeric => \A o \in Objs : (Live(o) /\ sem[o] # <<>>) => Len(sem[o]) = circ[o].nu + Len(circ[o].anc) + NLoss(circ[o].ops)
\* the compositional (per-call) semantics is the flattened ordered product of the components
SemAgrees == Numeric => \A o \in Objs : Live(o) => sem[o] = SemOrErr(circ[o], pval)
\* the same three clauses as action properties on the object the step touched (cheaper in multi-object scopes)
TgtP == prog'[Len(prog')][3]
UnitaryStep == [][(Numeric /\ TgtP > 0 /\ sem'[TgtP] # <<>>) => IsUnitary(sem'[TgtP]) /\ Len(sem'[TgtP]) = DimL(circ'[TgtP])]_vars
SemAgreesStep == [][(Numeric /\ TgtP > 0) => sem'[TgtP] = SemOrErr(circ'[TgtP], pval')]_vars
\* C02 (ii): every ancilla carries one herald number (same at input and output by construction), and the
\* user numbering never involves ancillas: ops appended by a call mention no ancilla that existed before it
AncillaPrivate ==
   [][\A o \in Objs : (Live(o) /\ circ'[o] # circ[o]) =>
         LET old == circ[o]   new == circ'[o]
             added == IF Len(new.ops) >= Len(old.ops) /\ SubSeq(new.ops, 1, Len(old.ops)) = old.ops
                      THEN SubSeq(new.ops, Len(old.ops) + 1, Len(new.ops)) ELSE <<>>
         IN (op' \in {"bs", "ps", "loss", "bar", "swap", "u", "add", "probeall", "edit"}) =>
              /\ SubSeq(new.anc, 1, Len(old.anc)) = old.anc
              /\ LinesOf(added) \cap {Anc(j) : j \in 1..Len(old.anc)} = {}]_vars
InputModesInv == \A o \in Objs : Live(o) => InputModes(circ[o]) >= 0 /\ Len(circ[o].hord) <= circ[o].nu
\* C08: a call changes at most its target; a rejected call changes nothing
TargetOf(e) == e[3]
FrameProp == [][IF op' = "setpar"
                THEN circ' = circ /\ \A o \in Objs : (Live(o) /\ prog'[Len(prog')][4] \notin ParamsOf(circ[o].ops)) => sem'[o] = sem[o]
                ELSE \A o \in Objs : (o # TargetOf(prog'[Len(prog')])) => (circ'[o] = circ[o] /\ sem'[o] = sem[o])]_vars
RejectFrame == [][op' \in ({"rej", "display"} \cup ReadKinds) => UNCHANGED <<circ, sem, pval>>]_vars
\* ---- design-level theorems about the read actions (C03, C04, C05) ----
LastT == prog[Len(prog)][3]
\* C03: for a lossless circuit the amplitudes from one input to all outputs of the same photon number form a unit vector
\*      (heralded circuits excluded: heralding is a projection)
SimUnit == (op = "simulate" /\ res # <<>> /\ NLoss(circ[LastT].ops) = 0 /\ HeraldPhot(circ[LastT]) = 0 /\ Len(circ[LastT].hord) = 0 /\ Len(circ[LastT].anc) = 0) =>
              LET L == Fact(NPhot(prog[Len(prog)][4])) * Fact(NPhot(prog[Len(prog)][4])) IN
              RSumSet(DOMAIN res, LAMBDA o : ScaledProb(<<RAbsSq(res[o][1]), res[o][2]>>, L)) = RInt(L)
\* C04: non-negative, sums to one, never more photons than injected
DistNorm == (op = "sdist" /\ res # <<>>) =>
              /\ RSumSet(DOMAIN res[2], LAMBDA p : res[2][p]) = RInt(res[1])
              /\ \A p \in DOMAIN res[2] : IsReal(res[2][p]) /\ RSign(res[2][p]) >= 0
\* C04: the SLOS transition system computes the permanent formula (both back-ends are one function)
SlosEqualsPermanent == (op = "sdist" /\ res # <<>>) => SlosAgrees(sem[LastT], FullIn(circ[LastT], prog[Len(prog)][4]))
\* C05: analyzer probabilities lie in [0,1] and their total (the performance) is at most one
AnalyzeBound == (op = "analyze" /\ res # <<>>) => RLeq(RSumSet(DOMAIN res[2], LAMBDA o : res[2][o]), RInt(res[1]))
\* C05: the quick sampler keeps only lossless heralded accepted outputs: its mass is at most the analyzer's
QuickBound == (op = "quick" /\ res # <<>>) => RLeq(RSumSet(DOMAIN res[2], LAMBDA o : res[2][o]), RInt(res[1]))
\* C10: a frozen copy mentions no parameter and keeps the values of the moment it was taken
FrozenProp == [][op' = "copyf" => LET t == TargetOf(prog'[Len(prog')])  s == prog'[Len(prog')][4] IN
                    ParamsOf(circ'[t].ops) = {} /\ (Numeric => sem'[t] = sem[s]) /\ circ'[s] = circ[s]]_vars
\* C10: live parameters - after ANY step every circuit's matrix is the one for the current parameter values
LiveParams == [][Numeric => \A o \in Objs : Live(o) => sem'[o] = SemOrErr(circ'[o], pval')]_vars
\* C08: later edits of a sub-circuit do not change a parent it was added to (sem[p] is a value, not a reference)
\* C09: rewrites preserve the transformation, heralds, input size
RewriteProp == [][op' \in {"unpack", "compress", "nonadj"} =>
                    \A o \in Objs : sem'[o] = sem[o] /\ circ'[o].hord = circ[o].hord /\ circ'[o].nu = circ[o].nu]_vars
NoGroupAfterUnpack == [][op' = "unpack" => ~HasGroup(circ'[TargetOf(prog'[Len(prog')])].ops)]_vars
CopyProp == [][op' = "copy" => LET t == TargetOf(prog'[Len(prog')])  s == prog'[Len(prog')][4] IN
                    circ'[t] = circ[s] /\ sem'[t] = sem[s] /\ circ'[s] = circ[s]]_vars
=============================================================================
