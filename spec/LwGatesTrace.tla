---------------------------- MODULE LwGatesTrace ----------------------------
(***************************************************************************)
(* Validates characterisation records of the REAL gate circuits against    *)
(* the table of LwGates.  A record is                                      *)
(*   [gate, opt, block (logical block / common scalar, quantised to the    *)
(*    ring; <<>> if it is not a ring value), s2 (|scalar|^2 as <<num,den>> *)
(*    or <<0,0>> if not a small rational), leak (largest accepted          *)
(*    amplitude outside the qubit subspace is non-zero)]                   *)
(***************************************************************************)
EXTENDS LwGates, TraceData
VARIABLES tid, bad
Init == tid \in 1..Len(Traces) /\ bad = {}
Rec == Traces[tid]
Step == /\ bad = {} /\ FALSE
        /\ UNCHANGED <<tid, bad>>
Clauses(r) == LET e == Named(r.gate, r.opt) IN
      \* equal up to a global phase ("one common scalar"); every table entry has a phase that is a multiple of pi/4
      (IF r.block # <<>> /\ Len(r.block) = Len(e[1]) /\ \E ph \in 0..7 : [i \in 1..Len(r.block) |-> [j \in 1..Len(r.block) |-> RMul(PhaseVal(ph), r.block[i][j])]] = e[1]
       THEN {} ELSE {"matrix"})
 \cup (IF r.s2[2] # 0 /\ r.s2[1] * e[2][2] = e[2][1] * r.s2[2] THEN {} ELSE {"scalar"})
 \cup (IF r.leak THEN {"leak"} ELSE {})
Spec == Init /\ [][Step]_<<tid, bad>>
Ok == Clauses(Rec) = {} \/ (PrintT(<<"BAD", tid, 1, Clauses(Rec)>>) /\ FALSE)
Accepted == Clauses(Rec) # {} \/ PrintT(<<"ACCEPTED", tid>>)
=============================================================================
