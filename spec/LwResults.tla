------------------------------ MODULE LwResults ------------------------------
(***************************************************************************)
(* SimulationResult / SamplingResult as functions, and the threshold and   *)
(* parity mappings as image-and-merge (C17).                               *)
(*                                                                         *)
(* A result is <<ins, outs, val>>: ordered distinct input states, ordered  *)
(* distinct output states, val[i][j] the value of input i / output j.      *)
(* The initial content is chosen nondeterministically (every ordered       *)
(* choice of outputs from the Fock states in scope); values are            *)
(* 1 + 3 i + j, all different, so that any mis-indexing shows.  Each step  *)
(* applies one mapping to the current result.                              *)
(***************************************************************************)
EXTENDS Integers, Sequences, FiniteSets, TLC, SequencesExt, FiniteSetsExt, Functions

CONSTANTS M,          \* modes
          MaxPh,      \* photons per state
          MaxOut,     \* number of outputs
          MaxMaps,    \* mappings applied in sequence
          Typ         \* "probability" | "probability_amplitude" | "counts"

RECURSIVE Fock(_,_)
Fock(m, n) == IF m = 1 THEN {<<n>>} ELSE UNION {{s \o <<v>> : s \in Fock(m - 1, n - v)} : v \in 0..n}
States == UNION {Fock(M, n) : n \in 0..MaxPh}
RECURSIVE SeqsOf(_,_)      \* sequences of k distinct elements of S
SeqsOf(S, k) == IF k = 0 THEN {<<>>} ELSE UNION {{Append(s, x) : x \in S \ {s[i] : i \in 1..Len(s)}} : s \in SeqsOf(S, k - 1)}

VARIABLES ins, outs, val, maps, rej, outs0
vars == <<ins, outs, val, maps, rej, outs0>>
Init == /\ \E k \in 1..2 : ins \in SeqsOf({[i \in 1..M |-> IF i = 1 THEN 1 ELSE 0], [i \in 1..M |-> IF i = M THEN 1 ELSE 0]}, k)
        /\ \E k \in 1..MaxOut : outs \in SeqsOf(States, k)
        /\ val = [i \in 1..Len(ins) |-> [j \in 1..Len(outs) |-> IF (i + j) % 3 = 0 THEN 0 ELSE 1 + 3 * i + j]]    \* some entries are exactly zero
        /\ maps = <<>> /\ rej = FALSE /\ outs0 = outs
Thr(s, inv) == [k \in 1..Len(s) |-> LET b == IF s[k] >= 1 THEN 1 ELSE 0 IN IF inv THEN 1 - b ELSE b]
Par(s, inv) == [k \in 1..Len(s) |-> LET b == s[k] % 2 IN IF inv THEN 1 - b ELSE b]
Image(kind, s, inv) == IF kind = "threshold" THEN Thr(s, inv) ELSE Par(s, inv)
\* image-and-merge: every output replaced by its image; coinciding images add their values; order = first occurrence
RECURSIVE FirstOcc(_,_)
FirstOcc(seq, acc) == IF seq = <<>> THEN acc
                      ELSE IF \E k \in 1..Len(acc) : acc[k] = Head(seq) THEN FirstOcc(Tail(seq), acc) ELSE FirstOcc(Tail(seq), Append(acc, Head(seq)))
Mapped(kind, inv) ==
   LET img == [j \in 1..Len(outs) |-> Image(kind, outs[j], inv)]
       newOuts == FirstOcc(img, <<>>)
   IN <<newOuts, [i \in 1..Len(ins) |-> [j \in 1..Len(newOuts) |->
            FoldLeft(LAMBDA a, b : a + b, 0, [q \in 1..Len(outs) |-> IF img[q] = newOuts[j] THEN val[i][q] ELSE 0])]]>>
Map(kind, inv) ==
   /\ ~rej /\ Len(maps) < MaxMaps
   /\ IF Typ = "probability_amplitude"
      THEN rej' = TRUE /\ UNCHANGED <<outs, val>>                 \* refused for amplitude-valued results
      ELSE rej' = FALSE /\ outs' = Mapped(kind, inv)[1] /\ val' = Mapped(kind, inv)[2]
   /\ maps' = Append(maps, <<kind, inv>>) /\ UNCHANGED <<ins, outs0>>
Next == \E kind \in {"threshold", "parity"}, inv \in BOOLEAN : Map(kind, inv)
Spec == Init /\ [][Next]_vars

RowSum(v, i) == FoldLeft(LAMBDA a, b : a + b, 0, v[i])
\* each input's total is unchanged by a mapping
TotalsKept == [][~rej' => \A i \in 1..Len(ins) : RowSum(val', i) = RowSum(val, i)]_vars
\* outputs stay distinct and are images
OutputsDistinct == Cardinality({outs[j] : j \in 1..Len(outs)}) = Len(outs)
\* applying the same PLAIN mapping twice changes nothing the second time (an inverted mapping applied twice is the plain one)
Idempotent == [][(Len(maps) >= 1 /\ ~rej' /\ maps'[Len(maps')] = maps[Len(maps)] /\ ~maps[Len(maps)][2]) => (outs' = outs /\ val' = val)]_vars
\* invert is the bitwise complement of the plain mapping
AfterMapBinary == (Len(maps) >= 1 /\ ~rej) => \A j \in 1..Len(outs) : \A k \in 1..M : outs[j][k] \in {0, 1}
=============================================================================
