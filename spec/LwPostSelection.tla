-------------------------- MODULE LwPostSelection --------------------------
(***************************************************************************)
(* The PostSelection rule object (sdk/utils/post_selection.py) that the    *)
(* Sampler, QuickSampler, Analyzer and the qubit converter condition on.   *)
(*                                                                         *)
(* State: the multi_rules flag, the rule list in insertion order, the set  *)
(* of modes that carry a rule, and the call history.  Actions are the      *)
(* public calls: Add(modes, counts) - accepted or refused - and            *)
(* Validate(state), a read whose result is recorded.  A rule is            *)
(* <<modes, counts>>: the photons summed over modes must be one of counts. *)
(*                                                                         *)
(* Refusals, as the code decides them: a negative mode or photon number;   *)
(* without multi_rules, a mode that already carries a rule.  A rule naming *)
(* the same mode twice is accepted by the code and counts that mode twice  *)
(* (deliberate deviation from the "obvious" set semantics: modelled as the *)
(* code does it, sequences not sets).                                      *)
(***************************************************************************)
EXTENDS Integers, Sequences, FiniteSets, TLC

CONSTANTS NModes, MaxPhot, MaxRules, MaxCalls,
          Multi,          \* the multi_rules flag of the object
          ModeArgs,       \* set of mode tuples tried by Add (may contain negative entries / repeated modes)
          CountArgs       \* set of photon-number tuples tried by Add

VARIABLES rules, withRule, hist, res
vars == <<rules, withRule, hist, res>>

Modes == 0..(NModes - 1)
\* all Fock states with at most MaxPhot photons over NModes modes, as sequences indexed 1..NModes
RECURSIVE StatesOf(_, _)
StatesOf(n, p) == IF n = 0 THEN {<<>>} ELSE UNION {{Append(s, k) : s \in StatesOf(n - 1, p - k)} : k \in 0..p}
AllStates == StatesOf(NModes, MaxPhot)

SeqSum(s, ms) == LET RECURSIVE F(_) F(i) == IF i = 0 THEN 0 ELSE F(i - 1) + s[ms[i] + 1] IN F(Len(ms))
RuleHolds(r, s) == \E i \in 1..Len(r[2]) : r[2][i] = SeqSum(s, r[1])
Holds(rs, s) == \A i \in 1..Len(rs) : RuleHolds(rs[i], s)

Elems(t) == {t[i] : i \in 1..Len(t)}
Refused(ms, cs) == \/ \E i \in 1..Len(ms) : ms[i] < 0
                   \/ \E i \in 1..Len(cs) : cs[i] < 0
                   \/ (~Multi /\ Elems(ms) \cap withRule # {})

Init == rules = <<>> /\ withRule = {} /\ hist = <<>> /\ res = <<>>
Add(ms, cs) ==
   /\ Len(hist) < MaxCalls /\ Len(rules) < MaxRules
   /\ IF Refused(ms, cs)
      THEN /\ hist' = Append(hist, <<"rej", "add", ms, cs>>)
           /\ UNCHANGED <<rules, withRule>>
      ELSE /\ hist' = Append(hist, <<"ok", "add", ms, cs>>)
           /\ rules' = Append(rules, <<ms, cs>>)
           /\ withRule' = withRule \cup Elems(ms)
   /\ res' = <<>>
\* one read of the whole truth table (every state in scope) - the replay compares every entry
ValidateAll ==
   /\ Len(hist) < MaxCalls /\ (IF hist = <<>> THEN TRUE ELSE hist[Len(hist)][2] # "validate")
   /\ hist' = Append(hist, <<"ok", "validate", <<>>, <<>>>>)
   /\ res' = {s \in AllStates : Holds(rules, s)}
   /\ UNCHANGED <<rules, withRule>>
Next == (\E ms \in ModeArgs, cs \in CountArgs : Add(ms, cs)) \/ ValidateAll
Spec == Init /\ [][Next]_vars

\* ---- properties ----
\* the mode bookkeeping is the union of the rules' modes
ModesInv == withRule = UNION {Elems(rules[i][1]) : i \in 1..Len(rules)}
\* without multi_rules no mode carries two rules (across rules; inside one rule the code does not look)
DisjointInv == ~Multi => \A i, j \in 1..Len(rules) : i # j => Elems(rules[i][1]) \cap Elems(rules[j][1]) = {}
\* nothing negative is ever stored
NonNegInv == \A i \in 1..Len(rules) : (\A k \in 1..Len(rules[i][1]) : rules[i][1][k] >= 0) /\ (\A k \in 1..Len(rules[i][2]) : rules[i][2][k] >= 0)
\* adding a rule can only shrink the accepted set; a refused call changes nothing; a read changes nothing
Monotone == [][\A s \in AllStates : Holds(rules', s) => Holds(rules, s)]_vars
RejectFrame == [][(hist' # hist /\ hist'[Len(hist')][1] = "rej") => UNCHANGED <<rules, withRule>>]_vars
\* the order in which rules were added does not matter for the verdict
OrderIrrelevant == \A s \in AllStates : Holds(rules, s) = (\A r \in {rules[i] : i \in 1..Len(rules)} : RuleHolds(r, s))
=============================================================================
