------------------------------- MODULE LwFock -------------------------------
(***************************************************************************)
(* Bosonic Fock space over LwRing matrices.                                *)
(*                                                                         *)
(* An occupation is a sequence of naturals.  The transition amplitude      *)
(* from `ins` to `outs` through the matrix U (U[row = output index][col =  *)
(* input index]) is                                                        *)
(*        Perm(U[rows by outs][cols by ins]) / sqrt(prod ins! prod outs!)  *)
(* and is carried exactly as the pair <<perm, den>> with den the integer   *)
(* under the square root.  A probability is <<num, den>> with num a real   *)
(* ring element: value num/den.                                            *)
(***************************************************************************)
EXTENDS LwMatrix

RECURSIVE FockBasis(_,_)
FockBasis(M, n) == IF M = 0 THEN (IF n = 0 THEN {<<>>} ELSE {})
                   ELSE IF M = 1 THEN {<<n>>}
                   ELSE UNION { { s \o <<v>> : s \in FockBasis(M - 1, n - v) } : v \in 0..n }
NPhot(occ) == FoldLeft(LAMBDA a, b : a + b, 0, occ)
RECURSIVE ExpandFrom(_,_)      \* occupation -> sorted list of indices, one per photon
ExpandFrom(occ, i) == IF i > Len(occ) THEN <<>> ELSE [k \in 1..occ[i] |-> i] \o ExpandFrom(occ, i + 1)
Expand(occ) == ExpandFrom(occ, 1)
ProdFact(occ) == FoldLeft(LAMBDA a, b : a * Fact(b), 1, occ)

\* permanent of U[rows = Expand(outs)][cols = Expand(ins)]
Perm(U, ins, outs) ==
   LET r == Expand(outs)  c == Expand(ins)  n == Len(r) IN
   IF n # Len(c) THEN Zero
   ELSE IF n = 0 THEN One
   ELSE RSumSet(Permutations(1..n), LAMBDA s : RProdSeq([i \in 1..n |-> U[r[i]][c[s[i]]]]))
Amp(U, ins, outs) == <<Perm(U, ins, outs), ProdFact(ins) * ProdFact(outs)>>
\* two amplitudes are equal iff perm1/sqrt(den1) = perm2/sqrt(den2)  <=>  perm1^2 den2 = perm2^2 den1 and same sign class;
\* within one table (same ins) we only ever compare equal-den entries, so tuple equality suffices.
Prob(U, ins, outs) == <<RAbsSq(Perm(U, ins, outs)), ProdFact(ins) * ProdFact(outs)>>

\* probabilities with different integer denominators are summed over a common multiple L (n!^2 suffices for n photons)
ScaledProb(p, L) == RMul(p[1], RInt(L \div p[2]))       \* p[2] divides L
ProbSum(S, f(_), L) == RSumSet(S, LAMBDA x : ScaledProb(f(x), L))

\* ---- heralds ------------------------------------------------------------
\* full occupation on indices 1..n from a partial one: `free` lists the indices that receive `occ` in order,
\* `fixed` is a set of <<index, n>> pairs, all other indices are empty
FullOcc(n, free, occ, fixed) ==
   [i \in 1..n |-> IF \E k \in 1..Len(free) : free[k] = i THEN occ[CHOOSE k \in 1..Len(free) : free[k] = i]
                   ELSE IF \E f \in fixed : f[1] = i THEN (CHOOSE f \in fixed : f[1] = i)[2]
                   ELSE 0]
=============================================================================
