---------------------------- MODULE LwConverter ----------------------------
(***************************************************************************)
(* The qiskit -> photonic converter (C12): which multi-qubit gate becomes  *)
(* a heralded gate, which a post-selected one, when the conversion is      *)
(* refused - and why an accepted output is always a logical one.           *)
(*                                                                         *)
(* A program is a sequence of multi-qubit gates <<name, qubits>> (single-  *)
(* qubit gates never change a dual-rail pair's photon number and are added *)
(* by the harness).  Convert runs the implementation-shaped backward pass  *)
(* of post_selection_analyzer; Rule selects the decision rule:             *)
(*   "any"  a gate may be post-selected when at least ONE of its qubits is *)
(*          not touched by a later multi-qubit gate (the pinned tree)      *)
(*   "nm1"  when at least n-1 of its n qubits are (the repaired rule)      *)
(* Then the circuit is executed on an ABSTRACT photon-count semantics: a   *)
(* heralded gate with logical input (one photon per pair) gives logical    *)
(* output; a post-selected gate - or any gate fed non-logical input - may  *)
(* output ANY redistribution of its photons among its pairs; a swap        *)
(* exchanges two pairs.  The run is accepted iff every pair that carries a *)
(* post-selection rule ends with one photon.                               *)
(* Safe: acceptance implies that no intermediate state was non-logical,    *)
(* i.e. the accepted amplitudes are a scalar times the unitary's column.   *)
(* Argument for "nm1": take the first gate whose output is non-logical; it *)
(* is post-selected, conserves the photons of its n pairs, and at least    *)
(* n-1 of them are measured untouched with one photon each, so the last    *)
(* one holds one as well - contradiction.                                  *)
(***************************************************************************)
EXTENDS Integers, Sequences, FiniteSets, TLC, FiniteSetsExt

CONSTANTS NQ, MaxGates, Rule, AllowPS
Q == 0..(NQ - 1)
Gate2 == {<<n, <<a, b>>>> : n \in {"cx"}, a \in Q, b \in Q} \cup {<<n, <<a, b>>>> : n \in {"cz", "swap"}, a \in Q, b \in Q}
Gate3 == {<<"ccx", <<a, b, c>>>> : a \in Q, b \in Q, c \in Q} \cup {<<"ccz", <<a, b, c>>>> : a \in Q, b \in Q, c \in Q}
Distinct(qs) == Cardinality({qs[i] : i \in 1..Len(qs)}) = Len(qs)
Canon(g) == \* swap / ccz are symmetric: one representative; cz and ccx in EVERY qubit order (the converter handles the orders differently)
   IF g[1] \in {"swap"} THEN g[2][1] < g[2][2]
   ELSE IF g[1] = "ccz" THEN (g[2][1] < g[2][2] /\ g[2][2] < g[2][3]) \/ (g[2][1] > g[2][2] /\ g[2][2] > g[2][3]) \/ (g[2][2] < g[2][1] /\ g[2][1] < g[2][3])
   ELSE TRUE
GateSet == {g \in Gate2 \cup Gate3 : Distinct(g[2]) /\ Canon(g)}
QS(g) == {g[2][i] : i \in 1..Len(g[2])}

VARIABLES phase, gates, ps, rules, pc, cnt, leaked, refused
vars == <<phase, gates, ps, rules, pc, cnt, leaked, refused>>

\* ---- post_selection_analyzer, transcribed: backward pass over the multi-qubit gates ----
RECURSIVE Back(_,_,_)
Back(gs, i, has) ==
   IF i = 0 THEN <<>>
   ELSE LET g == QS(gs[i])
            fresh == {q \in g : q \notin has}
            can == IF Rule = "nm1" THEN Cardinality(fresh) >= Cardinality(g) - 1 ELSE fresh # {}
        IN Back(gs, i - 1, has \cup g) \o <<can>>
Analyze(gs) == IF AllowPS THEN Back(gs, Len(gs), {}) ELSE [i \in 1..Len(gs) |-> FALSE]
RuleQubits(gs) == IF AllowPS THEN UNION {QS(gs[i]) : i \in 1..Len(gs)} ELSE {}
\* the converter refuses: a three-qubit gate that is not post-selected, or whose qubits are not adjacent
Adjacent3(g) == Max(QS(g)) - Min(QS(g)) = 2
Refuses(gs, flags) == \E i \in 1..Len(gs) : Len(gs[i][2]) = 3 /\ (~flags[i] \/ ~Adjacent3(gs[i]))

Init == /\ phase = "build" /\ gates = <<>> /\ ps = <<>> /\ rules = {} /\ pc = 1
        /\ cnt = [q \in Q |-> 1] /\ leaked = FALSE /\ refused = FALSE
AddGate == /\ phase = "build" /\ Len(gates) < MaxGates
           /\ \E g \in GateSet : gates' = Append(gates, g)
           /\ UNCHANGED <<phase, ps, rules, pc, cnt, leaked, refused>>
Convert == /\ phase = "build" /\ gates # <<>>
           /\ ps' = Analyze(gates)
           /\ rules' = RuleQubits(gates)
           /\ refused' = Refuses(gates, ps')
           /\ phase' = IF refused' THEN "done" ELSE "run"
           /\ UNCHANGED <<gates, pc, cnt, leaked>>
Logical(c, g) == \A q \in g : c[q] = 1
Total(c, g) == FoldSet(LAMBDA q, acc : acc + c[q], 0, g)
Redistributions(c, g) == {d \in [g -> 0..Cardinality(g)] : Total(d, g) = Total(c, g)}
RunGate == /\ phase = "run" /\ pc <= Len(gates)
           /\ LET g == gates[pc]  qs == QS(g) IN
                IF g[1] = "swap"
                THEN cnt' = [cnt EXCEPT ![g[2][1]] = cnt[g[2][2]], ![g[2][2]] = cnt[g[2][1]]]
                ELSE IF ~ps[pc] /\ Logical(cnt, qs) THEN cnt' = cnt
                ELSE \E d \in Redistributions(cnt, qs) : cnt' = [q \in Q |-> IF q \in qs THEN d[q] ELSE cnt[q]]
           /\ leaked' = (leaked \/ \E q \in Q : cnt'[q] # 1)
           /\ pc' = pc + 1
           /\ UNCHANGED <<phase, gates, ps, rules, refused>>
Finish == /\ phase = "run" /\ pc > Len(gates) /\ phase' = "done" /\ UNCHANGED <<gates, ps, rules, pc, cnt, leaked, refused>>
Next == AddGate \/ Convert \/ RunGate \/ Finish
Spec == Init /\ [][Next]_vars

Accepted == phase = "done" /\ ~refused /\ \A q \in rules : cnt[q] = 1
\* C12: an accepted run never passed through a non-logical state
Safe == Accepted => ~leaked
\* C12: a three-qubit gate without a valid post-selected placement is refused, never converted
RefusesProp == (phase \in {"run", "done"} /\ ~refused) => \A i \in 1..Len(gates) : Len(gates[i][2]) = 3 => (ps[i] /\ Adjacent3(gates[i]))
\* without post-selection nothing is ever post-selected
NoPSWhenDisallowed == (~AllowPS /\ phase # "build") => (\A i \in 1..Len(ps) : ~ps[i]) /\ rules = {}
=============================================================================
