----------------------------- MODULE LwEmuDefs -----------------------------
(***************************************************************************)
(* The emulator objects as FUNCTIONS of the abstract circuit and its exact *)
(* matrix: Simulator amplitudes, the Sampler's loss-marginalised           *)
(* distribution, and - defined from it - the Analyzer's table and the      *)
(* QuickSampler's distribution (C03, C04, C05).  No state.                 *)
(***************************************************************************)
EXTENDS LwCircuitDefs, LwFock

\* spec indices: user line l = l, ancilla j = nu + j, loss lines after that.
FreeInIdx(c)  == SortedSeq((1..c.nu) \ HIn(c))
FreeOutIdx(c) == SortedSeq((1..c.nu) \ HOut(c))
FixedIn(c)  == {<<c.hord[k][1], c.hord[k][3]>> : k \in 1..Len(c.hord)} \cup {<<c.nu + j, c.anc[j]>> : j \in 1..Len(c.anc)}
FixedOut(c) == {<<c.hord[k][2], c.hord[k][3]>> : k \in 1..Len(c.hord)} \cup {<<c.nu + j, c.anc[j]>> : j \in 1..Len(c.anc)}
FullIn(c, ins)   == FullOcc(DimL(c), FreeInIdx(c), ins, FixedIn(c))        \* herald photons on heralded inputs, vacuum on loss lines
FullOut(c, outs) == FullOcc(DimL(c), FreeOutIdx(c), outs, FixedOut(c))
HeraldPhot(c) == FoldLeft(LAMBDA a, h : a + h[3], 0, c.hord) + FoldLeft(LAMBDA a, n : a + n, 0, c.anc)
InputOk(c, ins) == Len(ins) = InputModes(c) /\ \A k \in 1..Len(ins) : ins[k] >= 0
\* Simulator.simulate(ins) with outputs = None: amplitude of every output of the same photon number
SimTable(c, M, ins) == [o \in FockBasis(InputModes(c), NPhot(ins)) |-> Amp(M, FullIn(c, ins), FullOut(c, o))]
\* Sampler.probability_distribution (ideal source): every pattern on the circuit's own modes (spec order users, ancillas) with
\* its total probability, summed over every way the remaining photons can sit in the loss lines; common denominator L
DistL(c, ins) == Fact(NPhot(ins) + HeraldPhot(c)) * Fact(NPhot(ins) + HeraldPhot(c))
SamplerDist(c, M, ins) ==
   LET N == NPhot(ins) + HeraldPhot(c)   fin == FullIn(c, ins)   L == DistL(c, ins)   d == Dim(c)   nl == DimL(c) - d
       pats == UNION {FockBasis(d, k) : k \in 0..N}
   IN [p \in pats |-> RSumSet(FockBasis(nl, N - NPhot(p)), LAMBDA ls : ScaledProb(Prob(M, fin, p \o ls), L))]
\* post-selection: every rule <<modes, counts>> must hold (modes are API numbers of the non-heralded modes)
PSHolds(ps, o) == \A r \in ps : FoldLeft(LAMBDA a, m : a + o[m + 1], 0, r[1]) \in {r[2][k] : k \in 1..Len(r[2])}
\* pattern on the circuit's modes that carries output o on the non-heralded outputs and the herald numbers elsewhere
WithHeralds(c, o) == FullOcc(Dim(c), FreeOutIdx(c), o, FixedOut(c))
\* Analyzer.analyze(ins): accepted outputs (post-selection true; photon number n, or <= n for a lossy circuit) and their probabilities
AnalyzerTable(c, M, ins, ps) ==
   LET n == NPhot(ins)   dist == SamplerDist(c, M, ins)
       outs == {o \in (IF NLoss(c.ops) = 0 THEN FockBasis(InputModes(c), n) ELSE UNION {FockBasis(InputModes(c), k) : k \in 0..n}) : PSHolds(ps, o)}
   IN [o \in outs |-> dist[WithHeralds(c, o)]]
\* QuickSampler.probability_distribution before renormalisation: heralds satisfied, post-selection true, no lost photon,
\* at most one photon per mode for threshold detection (pnr = FALSE)
QuickTable(c, M, ins, ps, pnr) ==
   LET n == NPhot(ins)   dist == SamplerDist(c, M, ins)   L == DistL(c, ins)
       outs == {o \in FockBasis(InputModes(c), n) : PSHolds(ps, o) /\ (pnr \/ \A k \in 1..Len(o) : o[k] <= 1)}
       lossless(o) == ScaledProb(Prob(M, FullIn(c, ins), FullOut(c, o)), L)
   IN [o \in outs |-> lossless(o)]
PSFits(c, ps) == \A r \in ps : \A k \in 1..Len(r[1]) : r[1][k] < InputModes(c)
\* ---- the SLOS back-end as a layer-by-layer transition system ----
\* one layer per input photon (in mode order): every amplitude coefficient c[s] is spread to c'[s + e_j] += c[s] * M[j][i].
\* The square-root ladder factors of the implementation multiply up to sqrt(prod out!) whatever the order, so the amplitude is
\* c[out] * sqrt(prod out!) / sqrt(prod in!); SlosAgrees states that this is the permanent formula: c[out] * prod out! = Perm.
SlosLayer(M, n, c, i) ==
   LET tgt == {[k \in 1..n |-> IF k = j THEN s[k] + 1 ELSE s[k]] : s \in DOMAIN c, j \in 1..n} IN
   [t \in tgt |-> RSumSet({j \in 1..n : t[j] >= 1 /\ [k \in 1..n |-> IF k = j THEN t[k] - 1 ELSE t[k]] \in DOMAIN c},
                          LAMBDA j : RMul(c[[k \in 1..n |-> IF k = j THEN t[k] - 1 ELSE t[k]]], M[j][i]))]
SlosCoeffs(M, fin) == LET n == Len(fin)  vac == [k \in 1..n |-> 0] IN
   FoldLeft(LAMBDA c, i : SlosLayer(M, n, c, i), (vac :> One), Expand(fin))
SlosAgrees(M, fin) == LET c == SlosCoeffs(M, fin) IN
   /\ DOMAIN c = FockBasis(Len(fin), NPhot(fin))
   /\ \A o \in DOMAIN c : RMul(c[o], RInt(ProdFact(o))) = Perm(M, fin, o)
=============================================================================
