------------------------------ MODULE LwAddPos ------------------------------
(***************************************************************************)
(* The implementation-shaped (POSITIONAL) model of Circuit.add / herald /  *)
(* component calls, refined against the line-identity model of             *)
(* LwCircuitDefs.                                                          *)
(*                                                                         *)
(* lightworks numbers modes by position.  A Circuit keeps                  *)
(*    n     total number of modes (user modes + hidden ancilla modes)      *)
(*    im    the positions of the hidden modes (`__internal_modes`, in      *)
(*          creation order, re-indexed whenever a mode is inserted)        *)
(*    inH / outH  the herald dictionaries (position -> photons; Python     *)
(*          dicts are ordered, and the k-th input key is paired with the   *)
(*          k-th output key), modelled as sequences of <<key, value>>      *)
(*    ops   the component list with 0-based positions; groups nest        *)
(* and `add` is an algorithm over these: map the API mode over the hidden  *)
(* modes, copy and unpack the argument, insert a pass-through mode into    *)
(* the argument for every hidden mode of the parent it straddles           *)
(* (cascading over the argument's own heralds), insert one hidden mode     *)
(* into the parent per herald of the argument, build a ModeSwaps that      *)
(* returns every herald to its input position and packs the remaining      *)
(* outputs in order, re-register the heralds, shift and append.            *)
(* This module transcribes that algorithm statement by statement (the      *)
(* operators carry the names of the Python functions) and runs it in       *)
(* lockstep with the abstract AddApply of LwCircuitDefs.  TLC checks the   *)
(* refinement                                                              *)
(*    Refines    : relabelling every position of pc[o] by its identity     *)
(*                 (user line / ancilla g[o][j]) gives exactly circ[o]     *)
(*                 (user width, ancilla herald numbers, declared heralds   *)
(*                 in order, op list modulo fixed points of swaps);        *)
(*    ValidAgree : the algorithm refuses exactly the additions the         *)
(*                 abstract AddValid refuses;                              *)
(*    WellFormed : hidden modes are distinct, in range, heralded at both   *)
(*                 ends with the same number; every position an op names   *)
(*                 exists.                                                 *)
(* g[o] is the bijection between the implementation's creation order of    *)
(* ancillas (sorted by position inside the added circuit) and the          *)
(* specification's (own ancillas first, then heralds in declaration        *)
(* order): it is part of the state and updated by an explicit rule, so no  *)
(* search over bijections is needed.                                       *)
(*                                                                         *)
(* Variant = "impl" is the algorithm of the current tree.  The other       *)
(* variants re-introduce defects that were found (or seeded) in this       *)
(* algorithm; TLC must REFUTE Refines for each of them (anti-vacuity):     *)
(*   "nocascade"  pass-through target computed with a one-pass count       *)
(*   "unpinned"   pass-through modes not pinned in the provisional swaps   *)
(*                (defect F4 of DESIGN 0.4)                                *)
(*   "nointcount" hidden modes behind the start mode not discounted in     *)
(*                the size check (defect F19)                              *)
(* The harness replays prog into real Circuit objects and compares         *)
(* pc[o] FIELD BY FIELD with the object's private bookkeeping              *)
(* (`_internal_modes`, `heralds`, `n_modes`, positions in                  *)
(* `_get_circuit_spec()`), which binds this model to the code at the grain *)
(* of the implementation and not only at the grain of its meaning.         *)
(***************************************************************************)
EXTENDS LwCircuitDefs

CONSTANTS PNu, TNu, MaxLen, MaxAnc, HeraldNs, AddPairs, MaxHer, MaxAdds, TmplLoss, Variant

VARIABLES circ, pc, g, prog, op
vars == <<circ, pc, g, prog, op>>
Objs == 1..3
PosMax == 40

\* ---- ordered dictionaries -------------------------------------------------
DKeys(d) == [i \in 1..Len(d) |-> d[i][1]]
DVals(d) == [i \in 1..Len(d) |-> d[i][2]]
DKeySet(d) == {d[i][1] : i \in 1..Len(d)}
DValSet(d) == {d[i][2] : i \in 1..Len(d)}
DGet(d, k) == d[CHOOSE i \in 1..Len(d) : d[i][1] = k][2]
DSet(d, k, v) == IF k \in DKeySet(d) THEN [i \in 1..Len(d) |-> IF d[i][1] = k THEN <<k, v>> ELSE d[i]]
                 ELSE Append(d, <<k, v>>)
SeqSet(s) == {s[i] : i \in 1..Len(s)}
IndexOf(s, x) == CHOOSE i \in 1..Len(s) : s[i] = x

\* ---- the positional circuit -----------------------------------------------
PNew(n) == [n |-> n, im |-> <<>>, inH |-> <<>>, outH |-> <<>>, ops |-> <<>>]
PNull == [n |-> -1, im |-> <<>>, inH |-> <<>>, outH |-> <<>>, ops |-> <<>>]
ShiftAt(mode) == [p \in 0..PosMax |-> IF p >= mode THEN p + 1 ELSE p]
ShiftBy(k) == [p \in 0..PosMax |-> p + k]
ShiftDict(d, mode) == [i \in 1..Len(d) |-> <<ShiftAt(mode)[d[i][1]], d[i][2]>>]
\* circuit_utils.add_empty_mode_to_circuit_spec
AddEmptyModeToSpec(ops, mode) == RenameOps(ops, ShiftAt(mode))
\* Circuit._add_empty_mode: the object's own bookkeeping moves; the spec it is given is returned shifted
AddEmptyMode(c, mode) == [c EXCEPT !.n = @ + 1, !.inH = ShiftDict(@, mode), !.outH = ShiftDict(@, mode),
                                   !.im = [k \in 1..Len(@) |-> ShiftAt(mode)[@[k]]]]
\* Circuit._map_mode
MapMode(c, m) == FoldLeft(LAMBDA acc, i : IF acc >= i THEN acc + 1 ELSE acc, m, SortedSeq(SeqSet(c.im)))
ModeInRange(c, mode) == 0 <= mode /\ mode < c.n

PPs(c, m, pid) == [c EXCEPT !.ops = Append(@, <<"ps", <<MapMode(c, m)>>, pid>>)]
PBs(c, m1, m2, par) == [c EXCEPT !.ops = Append(@, <<"bs", <<MapMode(c, m1), MapMode(c, m2)>>, par>>)]
PHeraldValid(c, n, i, o) == LET a == MapMode(c, i)  b == MapMode(c, o) IN
   ModeInRange(c, a) /\ ModeInRange(c, b) /\ a \notin DKeySet(c.inH) /\ b \notin DKeySet(c.outH)
PHerald(c, n, i, o) == [c EXCEPT !.inH = Append(@, <<MapMode(c, i), n>>), !.outH = Append(@, <<MapMode(c, o), n>>)]

\* ---- Circuit.add -----------------------------------------------------------
\* circuit.copy(); unpack_groups() when grouping is requested or forced
AddArg(S, grp) == IF grp \/ Len(S.inH) > 0 THEN [S EXCEPT !.im = <<>>, !.ops = Flat(S.ops)] ELSE S
PAddValid(P, S, m0, grp) ==
   LET mode == MapMode(P, m0)
       C == AddArg(S, grp)
       nInt == IF Variant = "nointcount" THEN 0 ELSE Cardinality({k \in 1..Len(P.im) : P.im[k] > mode})
   IN ModeInRange(P, mode) /\ mode + C.n - Len(C.inH) <= P.n - nInt
\* "Include any existing internal modes into the circuit to be added": acc = <<argument, pass-through positions>>
PassThrough(P, C0, mode) ==
   LET step(acc, i) ==
          LET C == acc[1]
              t0 == i - mode
              hs == SortedSeq(DKeySet(C.inH))
              tgt == IF Variant = "nocascade" THEN t0 + Cardinality({h \in DKeySet(C.inH) : t0 > h})
                     ELSE FoldLeft(LAMBDA t, h : IF t > h THEN t + 1 ELSE t, t0, hs)
          IN IF 0 <= tgt /\ tgt < C.n
             THEN <<[AddEmptyMode(C, tgt) EXCEPT !.ops = AddEmptyModeToSpec(C.ops, tgt)], Append(acc[2], tgt)>>
             ELSE acc
   IN FoldLeft(step, <<C0, <<>>>>, SortedSeq(SeqSet(P.im)))
\* "Then add new modes for heralds from circuit": acc = <<parent, provisional swaps>>
HeraldLoop(P, C, mode, pass) ==
   LET prov0 == IF Variant = "unpinned" THEN <<>> ELSE [k \in 1..Len(pass) |-> <<pass[k], pass[k]>>]
       step(acc, m) ==
          LET Q == acc[1]
              Q2 == [AddEmptyMode(Q, mode + m) EXCEPT !.ops = AddEmptyModeToSpec(Q.ops, mode + m)]
              Q3 == [Q2 EXCEPT !.im = Append(@, mode + m)]
              loc == IndexOf(DKeys(C.inH), m)
              outHerald == DKeys(C.outH)[loc]
          IN <<Q3, DSet(acc[2], outHerald, m)>>
   IN FoldLeft(step, <<P, prov0>>, SortedSeq(DKeySet(C.inH)))
\* "Convert provisional swaps into full list": acc = <<swaps, current_mode>>
FullSwaps(C, prov) ==
   LET used == DValSet(prov)
       step(acc, i) ==
          IF i \in DKeySet(prov) THEN <<Append(acc[1], <<i, DGet(prov, i)>>), acc[2]>>
          ELSE LET cm == CHOOSE c \in acc[2]..(acc[2] + C.n + 1) : c \notin used /\ \A d \in acc[2]..(c - 1) : d \in used
               IN <<IF i # cm THEN Append(acc[1], <<i, cm>>) ELSE acc[1], cm + 1>>
   IN FoldLeft(step, <<<<>>, 0>>, [i \in 1..C.n |-> i - 1])[1]
PAdd(P, S, m0, grp) ==
   LET mode == MapMode(P, m0)
       group == grp \/ Len(S.inH) > 0
       pt == PassThrough(P, AddArg(S, grp), mode)
       C == pt[1]
       hl == HeraldLoop(P, C, mode, pt[2])
       Q == hl[1]
       swaps == FullSwaps(C, hl[2])
       spec == IF DKeys(swaps) # DVals(swaps) THEN Append(C.ops, <<"perm", DKeys(swaps), DVals(swaps)>>) ELSE C.ops
       regH(d) == FoldLeft(LAMBDA acc, kv : DSet(acc, kv[1] + mode, kv[2]), d, C.inH)
       addCs == RenameOps(spec, ShiftBy(mode))
   IN [Q EXCEPT !.inH = regH(@), !.outH = regH(@),
                !.ops = IF group THEN Append(@, <<"grp", <<>>, addCs>>) ELSE @ \o addCs]

\* ---- abstraction: positions -> identities -----------------------------------
IsInternal(c, p) == p \in SeqSet(c.im)
UserLine(c, p) == 1 + Cardinality({q \in 0..(p - 1) : ~IsInternal(c, q)})
Label(c, gg) == [p \in 0..PosMax |-> IF p >= c.n THEN 999
                                     ELSE IF IsInternal(c, p) THEN Anc(gg[IndexOf(c.im, p)]) ELSE UserLine(c, p)]
RECURSIVE NormOps(_)
NormOps(ops) == IF ops = <<>> THEN <<>> ELSE
   LET o == Head(ops)
       no == IF o[1] = "grp" THEN << <<"grp", NormOps(o[3])>> >>
             ELSE IF o[1] = "perm" THEN
                  LET prs == {<<o[2][k], o[3][k]>> : k \in {j \in 1..Len(o[2]) : o[2][j] # o[3][j]}} IN
                  IF prs = {} THEN <<>> ELSE << <<"perm", prs>> >>
             ELSE <<o>>
   IN no \o NormOps(Tail(ops))
UserEntries(c, d) == SelectSeq(d, LAMBDA kv : ~IsInternal(c, kv[1]))
AbsHord(c) == LET ui == UserEntries(c, c.inH)  uo == UserEntries(c, c.outH) IN
   [k \in 1..Len(ui) |-> <<UserLine(c, ui[k][1]), UserLine(c, uo[k][1]), ui[k][2]>>]
WellFormedC(c) ==
   /\ Cardinality(SeqSet(c.im)) = Len(c.im)
   /\ \A k \in 1..Len(c.im) : ModeInRange(c, c.im[k]) /\ c.im[k] \in DKeySet(c.inH) /\ c.im[k] \in DKeySet(c.outH)
                              /\ DGet(c.inH, c.im[k]) = DGet(c.outH, c.im[k])
   /\ Cardinality(DKeySet(c.inH)) = Len(c.inH) /\ Cardinality(DKeySet(c.outH)) = Len(c.outH) /\ Len(c.inH) = Len(c.outH)
   /\ \A p \in LinesOf(c.ops) : ModeInRange(c, p)
RefinesC(c, a, gg) ==
   /\ c.n = a.nu + Len(a.anc)
   /\ Len(c.im) = Len(a.anc) /\ Len(gg) = Len(c.im) /\ SeqSet(gg) = 1..Len(gg)
   /\ \A j \in 1..Len(c.im) : DGet(c.inH, c.im[j]) = a.anc[gg[j]]
   /\ AbsHord(c) = a.hord
   /\ NormOps(RenameOps(c.ops, Label(c, gg))) = NormOps(a.ops)

\* ---- scenario (the marked parent / templates of LwCircuit's "tmpl" scenario) ---
TemplateOps(n) == [i \in 1..n |-> OpPs(i, i)] \o [i \in 1..(n-1) |-> OpBs(i, i+1, 1, IF i % 2 = 1 THEN "Rx" ELSE "H")]
                  \o (IF TmplLoss THEN <<OpLoss(1, 1)>> ELSE <<>>)
ParentOps(n) == <<OpPs(1, 3)>> \o [i \in 1..(n-1) |-> OpBs(i, i+1, 1, "Rx")]
ToPos(c) == [PNew(c.nu) EXCEPT !.ops = RenameOps(c.ops, [l \in 1..c.nu |-> l - 1])]
Init == /\ circ = <<[New(PNu) EXCEPT !.ops = ParentOps(PNu)], [New(TNu[1]) EXCEPT !.ops = TemplateOps(TNu[1])],
                    [New(TNu[2]) EXCEPT !.ops = TemplateOps(TNu[2])]>>
        /\ pc = [o \in Objs |-> ToPos(circ[o])]
        /\ g = [o \in Objs |-> <<>>]
        /\ prog = <<>>
        /\ op = "init"

NAdds == Len(SelectSeq(prog, LAMBDA e : e[2] = "add"))
\* canonical order: heralds on 3; then heralds on 2 and additions into 2 in ANY order (a herald declared on a circuit that already owns an
\* ancilla goes through _map_mode); then additions into the parent; then the probes
StageOf(name, t) == IF name = "herald" THEN (IF t = 3 THEN 1 ELSE 2) ELSE IF name = "add" THEN (IF t = 1 THEN 4 ELSE 2) ELSE 5
StageOk(name, t) == IF Len(prog) = 0 THEN TRUE ELSE StageOf(prog[Len(prog)][2], prog[Len(prog)][3]) <= StageOf(name, t)
Step(t, name, args, a2, c2, g2) ==
   /\ Len(prog) < MaxLen /\ StageOk(name, t)
   /\ circ' = [circ EXCEPT ![t] = a2] /\ pc' = [pc EXCEPT ![t] = c2] /\ g' = [g EXCEPT ![t] = g2]
   /\ prog' = Append(prog, <<"ok", name, t>> \o args) /\ op' = name

DoHerald(t, n, i, o) ==
   /\ Len(circ[t].hord) < MaxHer[t]
   /\ HeraldValid(circ[t], n, i, o)
   /\ Step(t, "herald", <<n, i, o>>, HeraldApply(circ[t], n, i, o), PHerald(pc[t], n, i, o), g[t])
\* the bijection rule: the implementation creates the new hidden modes in the order of their POSITION inside the argument
NewG(p, s) ==
   LET S == pc[s]  a == circ[s]  kOld == Len(circ[p].anc)  kS == Len(a.anc)
       hs == SortedSeq(DKeySet(S.inH))
   IN g[p] \o [t \in 1..Len(hs) |->
         IF IsInternal(S, hs[t]) THEN kOld + g[s][IndexOf(S.im, hs[t])]
         ELSE kOld + kS + (CHOOSE k \in 1..Len(a.hord) : a.hord[k][1] = UserLine(S, hs[t]))]
DoAdd(p, s, m, grp) ==
   /\ NAdds < MaxAdds
   /\ AddValid(circ[p], circ[s], m)
   /\ Len(circ[p].anc) + Len(circ[s].anc) + Len(circ[s].hord) <= MaxAnc
   /\ Step(p, "add", <<s, m, grp>>, AddApply(circ[p], circ[s], m, grp), PAdd(pc[p], pc[s], m, grp), NewG(p, s))
ProbeOps(c) == [i \in 1..c.nu |-> OpPs(i, (2 * i + 1) % 8)]
DoProbeAll(t) ==
   /\ NAdds > 0 /\ ~ \E k \in 1..Len(prog) : prog[k][2] = "probeall"
   /\ Step(t, "probeall", <<>>, [circ[t] EXCEPT !.ops = @ \o ProbeOps(circ[t])],
           FoldLeft(LAMBDA c, i : PPs(c, i - 1, (2 * i + 1) % 8), pc[t], [i \in 1..circ[t].nu |-> i]), g[t])

Next ==
   \/ \E t \in {2, 3}, n \in HeraldNs : \E i \in 0..(circ[t].nu - 1), o \in 0..(circ[t].nu - 1) : DoHerald(t, n, i, o)
   \/ \E pr \in AddPairs, grp \in BOOLEAN : \E m \in 0..(circ[pr[1]].nu - 1) : DoAdd(pr[1], pr[2], m, grp)
   \/ DoProbeAll(1)
Spec == Init /\ [][Next]_vars

\* ---- properties -----------------------------------------------------------
WellFormed == \A o \in Objs : WellFormedC(pc[o])
Refines == \A o \in Objs : RefinesC(pc[o], circ[o], g[o])
ValidAgree == \A pr \in AddPairs, grp \in BOOLEAN : \A m \in 0..circ[pr[1]].nu :
   PAddValid(pc[pr[1]], pc[pr[2]], m, grp) = AddValid(circ[pr[1]], circ[pr[2]], m)
HeraldAgree == \A t \in {2, 3} : \A i \in 0..(circ[t].nu - 1), o \in 0..(circ[t].nu - 1) :
   PHeraldValid(pc[t], 0, i, o) = HeraldValid(circ[t], 0, i, o)
=============================================================================
