------------------------------ MODULE LwSource ------------------------------
(***************************************************************************)
(* The imperfect single-photon source (C06).                               *)
(*                                                                         *)
(* Every photon of the intended input is emitted independently with one of *)
(* six outcomes (nothing / the intended photon, indistinguishable / the    *)
(* intended photon, fully distinguishable / a distinguishable noise photon *)
(* only / intended + noise / distinguishable + noise) with the documented  *)
(* weights, rational functions of the brightness nu, the two-photon weight *)
(* x (purity = 1 - 2x/(1+x)^2) and p_i = sqrt(indistinguishability).       *)
(* All indistinguishable photons form ONE group; every distinguishable or  *)
(* noise photon is its own group.  The output distribution of one emission *)
(* pattern is the mode-wise merge convolution of the independent           *)
(* boson-sampling distributions of its groups; the source's distribution   *)
(* is the mixture over emission patterns.                                  *)
(*                                                                         *)
(* The state machine emits photon after photon; hist records the choices,  *)
(* so the terminal states are exactly the emission patterns, each with its *)
(* exact rational weight w and its exact output distribution out.  The     *)
(* harness sums w * out over the terminal states.                          *)
(***************************************************************************)
EXTENDS LwEmuDefs

CONSTANTS Circ,        \* the abstract circuit (no heralds of its own: herald photons are part of In)
          In,          \* intended input occupation on the circuit's modes
          Nu, X, Pi    \* <<num, den>> : brightness, two-photon weight, sqrt(indistinguishability)

VARIABLES idx, grp0, singles, w, hist, out
vars == <<idx, grp0, singles, w, hist, out>>

QM(p, q) == QNorm(QMul(p, q))
QA(p, q) == QNorm(QAdd(p, q))
QOne == <<1, 1>>
QC(p) == QNorm(<<p[2] - p[1], p[2]>>)
P2 == X
P1 == QC(X)
Pd == QC(Pi)
\* the documented single-photon outcome table
C0   == QNorm(QSub(QOne, QM(Nu, QA(P1, QA(QM(P2, Nu), QM(<<2, 1>>, QM(QC(Nu), P2)))))))
C1   == QM(Pi, QM(Nu, QA(P1, QM(QC(Nu), P2))))
C1d  == QM(Pd, QM(Nu, QA(P1, QM(QC(Nu), P2))))
C1dp == QM(Nu, QM(QC(Nu), P2))
C12d == QM(QM(Nu, Nu), QM(Pi, P2))
C1d2d == QM(QM(Nu, Nu), QM(Pd, P2))
\* outcome id -> <<weight, photons added to the indistinguishable group, distinguishable single photons added>>
Outcomes == << <<C0, 0, 0>>, <<C1, 1, 0>>, <<C1d, 0, 1>>, <<C1dp, 0, 1>>, <<C12d, 1, 1>>, <<C1d2d, 0, 2>> >>
ASSUME TableSumsToOne == QEq(QA(C0, QA(C1, QA(C1d, QA(C1dp, QA(C12d, C1d2d))))), QOne)
\* emitted photon-number statistics of one source shot: g2 = 2 P(2) / <n>^2 = 1 - purity, purity = 1 - 2x/(1+x)^2
PN1 == QA(C1, QA(C1d, C1dp))
PN2 == QA(C12d, C1d2d)
MeanN == QA(PN1, QM(<<2, 1>>, PN2))
ASSUME G2IsOneMinusPurity ==
   MeanN[1] = 0 \/ QEq(QM(<<2, 1>>, PN2), QM(QM(MeanN, MeanN), QM(<<2, 1>>, QM(X, <<(X[2]) * (X[2]), (X[1] + X[2]) * (X[1] + X[2])>>))))

Photons == Expand(In)                 \* mode of each intended photon, in mode order
NM == Circ.nu
M == Sem(Circ)
Unit(m) == [i \in 1..NM |-> IF i = m THEN 1 ELSE 0]
Zeros == [i \in 1..NM |-> 0]

\* ---- distributions as functions pattern -> <<num, den>> ----
ToQ(r) == <<r[1], 2 ^ r[5]>>          \* a real dyadic ring element as a rational (r[2] = r[3] = r[4] = 0 in this scope)
GroupDist(s) ==                       \* boson sampling distribution of one group of mutually indistinguishable photons
   LET d == SamplerDist(Circ, M, s)  L == DistL(Circ, s) IN
   [p \in {q \in DOMAIN d : d[q] # Zero} |-> QNorm(<<ToQ(d[p])[1], ToQ(d[p])[2] * L>>)]
Merge(a, b) == [i \in 1..Len(a) |-> a[i] + b[i]]
Conv(A, B) ==
   LET pats == {Merge(a, b) : a \in DOMAIN A, b \in DOMAIN B} IN
   [p \in pats |-> FoldSet(LAMBDA ab, acc : QA(acc, QM(A[ab[1]], B[ab[2]])), <<0, 1>>,
                           {ab \in (DOMAIN A) \X (DOMAIN B) : Merge(ab[1], ab[2]) = p})]
OutDist(g0, sing) ==
   FoldLeft(LAMBDA acc, m : Conv(acc, GroupDist(Unit(m))), GroupDist(g0), sing)

Init == /\ idx = 1 /\ grp0 = Zeros /\ singles = <<>> /\ w = QOne /\ hist = <<>> /\ out = <<>>
Emit == /\ idx <= Len(Photons)
        /\ \E o \in 1..6 :
             LET oc == Outcomes[o]  m == Photons[idx] IN
             /\ oc[1][1] # 0
             /\ w' = QM(w, oc[1])
             /\ grp0' = IF oc[2] = 1 THEN [grp0 EXCEPT ![m] = @ + 1] ELSE grp0
             /\ singles' = singles \o [k \in 1..oc[3] |-> m]
             /\ hist' = Append(hist, o)
        /\ idx' = idx + 1 /\ UNCHANGED out
Finish == /\ idx = Len(Photons) + 1
          /\ out' = OutDist(grp0, singles)
          /\ idx' = idx + 1 /\ UNCHANGED <<grp0, singles, w, hist>>
Next == Emit \/ Finish
Spec == Init /\ [][Next]_vars

\* ---- properties ----
Done == idx = Len(Photons) + 2
FoldQ(f) == FoldSet(LAMBDA p, acc : QA(acc, f[p]), <<0, 1>>, DOMAIN f)
\* every emission pattern's output distribution is normalised and never holds more photons than were emitted
OutNormalised == Done => (QEq(FoldQ(out), QOne) /\ \A p \in DOMAIN out : NPhot(p) <= NPhot(grp0) + Len(singles))
WeightOk == w[1] >= 0 /\ w[1] <= w[2]
\* perfect settings reduce to the ideal source: the only emission pattern is the intended input, in one group
PerfectIsIdeal == (Done /\ QEq(Nu, QOne) /\ X[1] = 0 /\ QEq(Pi, QOne)) => (grp0 = In /\ singles = <<>> /\ QEq(w, QOne))
\* zero indistinguishability gives classical particles: no photon ever joins the indistinguishable group
ZeroIndistClassical == (Done /\ Pi[1] = 0) => grp0 = Zeros
=============================================================================
