----------------------------- MODULE LwSampling -----------------------------
(***************************************************************************)
(* One sample through the sampling pipeline of Sampler (C07):              *)
(*   draw a pattern from the output distribution                           *)
(*   -> each photon detected independently with the efficiency             *)
(*   -> at most one dark count per mode with probability p_dark            *)
(*   -> threshold detectors cap counts at one                              *)
(*   -> herald check on the DETECTED pattern -> herald modes removed       *)
(*   -> post-selection -> minimum detection -> emitted or discarded        *)
(* Every branch carries its exact rational weight w = <<num, den>>, so the *)
(* terminal states of the (finite, tree-shaped) state graph ARE the exact  *)
(* detected / heralded / post-selected distribution: the harness sums the  *)
(* weights of the terminal states per emitted pattern.                     *)
(* Entry selects the public method:                                        *)
(*   "n_inputs"  sample_N_inputs : full pipeline                           *)
(*   "n_outputs" sample_N_outputs: threshold only, then filters (p_dark=0) *)
(*   "sample"    sample()        : draw + detector, no filtering           *)
(***************************************************************************)
EXTENDS LwRing

CONSTANTS NModes,
          Dist,        \* set of <<pattern, num, den>> : the sampler's output distribution (exact rationals)
          Eta,         \* <<num, den>> detector efficiency
          PDark,       \* <<num, den>> dark count probability per mode
          Pnr,         \* photon number resolving?
          Heralds,     \* set of <<mode (1-based), n>>
          PS,          \* post-selection rule set on the herald-free pattern: set of <<modes (0-based), counts>>
          MinDet,
          Entry

VARIABLES stage, st, w, m, hist
vars == <<stage, st, w, m, hist>>
QMulN(p, q) == QNorm(QMul(p, q))
Comp(p) == <<p[2] - p[1], p[2]>>          \* 1 - p
NonZero(p) == p[1] # 0
RECURSIVE QPow(_,_)
QPow(p, n) == IF n = 0 THEN <<1, 1>> ELSE QMulN(p, QPow(p, n - 1))
Binom(n, j) == Fact(n) \div (Fact(j) * Fact(n - j))

\* hist records every random choice, so the state graph is a tree and the terminal states are the branches
Init == stage = "draw" /\ st = <<>> /\ w = <<1, 1>> /\ m = 0 /\ hist = <<>>

AfterDraw == IF Entry = "n_outputs" THEN "thr" ELSE "eff"
Draw == /\ stage = "draw"
        /\ \E d \in Dist : /\ d[2] # 0
                           /\ st' = d[1] /\ w' = QNorm(<<d[2], d[3]>>)
                           /\ stage' = AfterDraw /\ m' = 1 /\ hist' = <<d[1]>>
\* efficiency: each photon of mode m detected independently; j of the n photons are lost
EffMode == /\ stage = "eff" /\ m <= NModes
           /\ \E j \in 0..st[m] :
                LET n == st[m]  wt == QMulN(<<Binom(n, j), 1>>, QMulN(QPow(Eta, n - j), QPow(Comp(Eta), j))) IN
                /\ NonZero(wt)
                /\ w' = QMulN(w, wt) /\ st' = [st EXCEPT ![m] = n - j] /\ hist' = Append(hist, j)
           /\ m' = m + 1 /\ UNCHANGED stage
EffDone == stage = "eff" /\ m > NModes /\ stage' = "dark" /\ m' = 1 /\ UNCHANGED <<st, w, hist>>
\* dark counts: at most one per mode
DarkStep(add) == /\ stage = "dark" /\ m <= NModes
                 /\ IF add THEN NonZero(PDark) /\ w' = QMulN(w, PDark) /\ st' = [st EXCEPT ![m] = @ + 1]
                    ELSE NonZero(Comp(PDark)) /\ w' = QMulN(w, Comp(PDark)) /\ UNCHANGED st
                 /\ hist' = Append(hist, IF add THEN 1 ELSE 0)
                 /\ m' = m + 1 /\ UNCHANGED stage
DarkDone == stage = "dark" /\ m > NModes /\ stage' = "thr" /\ UNCHANGED <<st, w, m, hist>>
Threshold == /\ stage = "thr"
             /\ st' = IF Pnr THEN st ELSE [i \in 1..Len(st) |-> IF st[i] >= 1 THEN 1 ELSE 0]
             /\ stage' = (IF Entry = "sample" THEN "emit" ELSE "herald") /\ UNCHANGED <<w, m, hist>>
HeraldModes == {h[1] : h \in Heralds}
HeraldsOk(s) == \A h \in Heralds : s[h[1]] = h[2]
Strip(s) == LET keep == SetToSortSeq((1..Len(s)) \ HeraldModes, <) IN [i \in 1..Len(keep) |-> s[keep[i]]]
HeraldCheck == /\ stage = "herald"
               /\ IF HeraldsOk(st) THEN st' = Strip(st) /\ stage' = "filter" ELSE UNCHANGED st /\ stage' = "discard"
               /\ UNCHANGED <<w, m, hist>>
PSHolds(s) == \A r \in PS : FoldLeft(LAMBDA a, i : a + s[i + 1], 0, r[1]) \in {r[2][j] : j \in 1..Len(r[2])}
NPh(s) == FoldLeft(LAMBDA a, b : a + b, 0, s)
Filter == /\ stage = "filter"
          /\ stage' = IF PSHolds(st) /\ NPh(st) >= MinDet THEN "emit" ELSE "discard"
          /\ UNCHANGED <<st, w, m, hist>>
Next == Draw \/ EffMode \/ EffDone \/ DarkStep(TRUE) \/ DarkStep(FALSE) \/ DarkDone \/ Threshold \/ HeraldCheck \/ Filter
Spec == Init /\ [][Next]_vars

\* ---- safety of every emitted state (the deterministic clauses of C07) ----
EmitSafe == (stage = "emit" /\ Entry # "sample") =>
              /\ Len(st) = NModes - Cardinality(HeraldModes)       \* herald modes removed
              /\ PSHolds(st) /\ NPh(st) >= MinDet
\* heralds are judged on the DETECTED pattern: the step into "filter" is only taken from a pattern that satisfies them
HeraldAfterDetection == [][(stage = "herald" /\ stage' = "filter") => HeraldsOk(st)]_vars
WeightOk == w[1] >= 0 /\ w[2] > 0 /\ w[1] <= w[2]
ThresholdOk == (stage \in {"herald", "filter", "emit", "discard"} /\ ~Pnr) => \A i \in 1..Len(st) : st[i] \in {0, 1}
=============================================================================
