------------------------------- MODULE LwReck -------------------------------
(***************************************************************************)
(* The Reck (triangular) mapping (C14), design sub-model: the nulling      *)
(* schedule of reck_decomposition and the circuit Reck.map builds from it, *)
(* executed EXACTLY on monomial matrices (one non-zero entry per row and   *)
(* column, a 4th root of unity).  This is the family that always takes the *)
(* "entry already zero" branch, which Haar-random tests never reach; here  *)
(* theta is 0 or pi and phi a multiple of pi/2, so every matrix stays in   *)
(* the ring.  Phases are carried in units of pi/2.                         *)
(*                                                                         *)
(* Contract for arbitrary unitaries (checked on recorded mappings by the   *)
(* harness with the evaluator): the mapped circuit consists of barriers,   *)
(* phase shifters and beam splitters on adjacent modes only, its unitary   *)
(* equals the original, heralds are kept, programmed phases lie in         *)
(* [0, 2 pi).                                                              *)
(***************************************************************************)
EXTENDS LwMatrix

CONSTANT N
VARIABLES U0, phase, done
vars == <<U0, phase, done>>

Q4(k) == PhaseVal(2 * (k % 4))                    \* exp(i k pi/2)
AngleQ(x) == IF x = One THEN 0 ELSE IF x = Im THEN 1 ELSE IF x = RNeg(One) THEN 2 ELSE IF x = RNeg(Im) THEN 3 ELSE 0   \* np.angle(0) = 0
Monomials == { [i \in 1..N |-> [j \in 1..N |-> IF s[j] = i THEN Q4(p[j]) ELSE Zero]] : s \in Permutations(1..N), p \in [1..N -> 0..3] }
Flip(A) == [i \in 1..N |-> [j \in 1..N |-> A[N + 1 - i][N + 1 - j]]]

\* schedule of reck_decomposition: i = 0..N-2, j = 0..N-2-i (0-based), in this order
Sched == LET pairs == {<<i, j>> : i \in 0..(N - 2), j \in 0..(N - 2)} IN
         SetToSortSeq({p \in pairs : p[2] <= N - 2 - p[1]}, LAMBDA a, b : a[1] < b[1] \/ (a[1] = b[1] /\ a[2] < b[2]))
\* conjugate transpose of bs_matrix(j, j+1, theta, phi) for theta in {0, pi} (th = 0 / 2), phi = ph * pi/2
TDag(j, th, ph) ==
   IF th = 2 THEN Embed2(N, j + 1, j + 2, <<RConj(Q4(ph)), Zero, Zero, RNeg(One)>>)
   ELSE Embed2(N, j + 1, j + 2, <<Zero, RMul(RNeg(Im), RConj(Q4(ph))), RNeg(Im), Zero>>)
NullStep(acc, ij) ==
   LET U == acc[1]  loc == N - 1 - ij[1]  j == ij[2]
       u == U[loc + 1][j + 1]   u1 == U[loc + 1][j + 2]
       th == IF u = Zero THEN 2 ELSE 0                              \* 2 atan(|u1| / |u|) with u1 = 0 in a monomial row
       ph == IF u = Zero THEN 0 ELSE (AngleQ(u) - AngleQ(u1) + 4) % 4
   IN <<MMul(U, TDag(j, th, ph)), acc[2] @@ (ij :> <<th, ph>>), acc[3] /\ (u = Zero \/ u1 = Zero)>>
Decompose(V) == FoldLeft(NullStep, <<V, <<>>, TRUE>>, Sched)
Nulled(A) == \A i \in 1..N, j \in 1..N : i # j => A[i][j] = Zero
\* the circuit Reck.map builds (ideal error model): per unit cell  ps(mode+1, phi) bs(mode) ps(mode, theta) bs(mode), then the end phases
CellMat(ij, tp) ==
   LET mode == N - ij[2] - 2 IN      \* 0-based mode
   MMul(Embed2(N, mode + 1, mode + 2, BsBlock(1, "Rx")),
        MMul(MDiag1(N, mode + 1, Q4(tp[1])),
             MMul(Embed2(N, mode + 1, mode + 2, BsBlock(1, "Rx")), MDiag1(N, mode + 2, Q4(tp[2])))))
Mapped(V) ==
   LET d == Decompose(Flip(V))
       cells == FoldLeft(LAMBDA M, ij : MMul(CellMat(ij, d[2][ij]), M), MId(N), Sched)
       ends == FoldLeft(LAMBDA M, i : MMul(MDiag1(N, N - i, Q4(AngleQ(d[1][i + 1][i + 1]))), M), cells, [k \in 1..N |-> k - 1])
   IN <<ends, d>>

Init == U0 \in Monomials /\ phase = <<>> /\ done = FALSE
Map == /\ ~done /\ done' = TRUE
       /\ phase' = Mapped(U0)[2][2]
       /\ UNCHANGED U0
Spec == Init /\ [][Map]_vars

\* the schedule nulls every monomial matrix (the zero branch) and the mapped circuit reproduces it
Reconstructs == LET m == Mapped(U0) IN Nulled(m[2][1]) /\ m[2][3] /\ m[1] = U0
=============================================================================
