----------------------------- MODULE LwRewrites -----------------------------
(***************************************************************************)
(* Transcriptions of the rewrite algorithms of circuit_utils.py (C09):     *)
(*   convert_non_adj_beamsplitters, compress_mode_swaps,                   *)
(*   combine_mode_swap_dicts, unpack_circuit_spec                          *)
(* operating on op lists of a circuit WITHOUT hidden modes (positions =    *)
(* lines).  TLC checks on every op list in scope that each algorithm       *)
(* preserves the exact transfer matrix and meets its structural            *)
(* postcondition - the algorithms themselves are model checked, not only   *)
(* their contract.  Variant "merged_twice" reproduces the defect F22 (a    *)
(* swap already merged into an earlier one is considered again).           *)
(***************************************************************************)
EXTENDS LwCircuitDefs

CONSTANTS NU, MaxOps, Kinds, Variant, SwapLevel
VARIABLES ops, res        \* res = <<Compress(ops), ConvertNonAdj(ops)>> : what the transcribed algorithms return (for the replay)
vars == <<ops, res>>
C(o) == [nu |-> NU, anc |-> <<>>, hord |-> <<>>, ops |-> o]
SemOf(o) == Sem(C(o))

\* ---- convert_non_adj_beamsplitters ----
\* a beam splitter on lines a, b with |a - b| > 1 becomes  swap ; bs on (mid, mid+1) in the original orientation ; inverse swap
Lo(a, b) == IF a < b THEN a ELSE b
Hi(a, b) == IF a < b THEN b ELSE a
Mid(a, b) == (Lo(a, b) + Hi(a, b) - 1) \div 2            \* 0-based arithmetic of the code shifted by one: lines are 1-based, same formula
\* swaps: lines lo..mid: lo -> mid, others one down ; lines mid+1..hi: hi -> mid+1, others one up
ConvFrom(a, b) == [k \in 1..(Hi(a, b) - Lo(a, b) + 1) |-> Lo(a, b) + k - 1]
ConvTo(a, b) == LET lo == Lo(a, b)  hi == Hi(a, b)  mid == Mid(a, b) IN
   [k \in 1..(hi - lo + 1) |-> LET i == lo + k - 1 IN
        IF i <= mid THEN (IF i = lo THEN mid ELSE i - 1) ELSE (IF i = hi THEN mid + 1 ELSE i + 1)]
RECURSIVE ConvertNonAdj(_)
ConvertNonAdj(os) == IF os = <<>> THEN <<>> ELSE
   LET o == Head(os)
       here == IF o[1] = "bs" /\ (o[2][1] - o[2][2]) \notin {-1, 1}
               THEN LET a == o[2][1]  b == o[2][2]  mid == Mid(a, b)
                        n1 == IF a > b THEN mid + 1 ELSE mid   n2 == IF a > b THEN mid ELSE mid + 1
                    IN << OpPerm(ConvFrom(a, b), ConvTo(a, b)), <<"bs", <<n1, n2>>, o[3]>>, OpPerm(ConvTo(a, b), ConvFrom(a, b)) >>
               ELSE IF o[1] = "grp" THEN <<OpGrp(ConvertNonAdj(o[3]))>>
               ELSE <<o>>
   IN here \o ConvertNonAdj(Tail(os))

\* ---- combine_mode_swap_dicts: s1 then s2 as one swap, identity entries dropped ----
\* a swap is a function from a set of lines to lines (dictionary)
SwapOf(o) == [k \in {o[2][i] : i \in 1..Len(o[2])} |-> o[3][CHOOSE i \in 1..Len(o[2]) : o[2][i] = k]]
Combine(s1, s2) ==
   LET used == {s1[k] : k \in DOMAIN s1} \cap DOMAIN s2
       m == [k \in DOMAIN s1 |-> IF s1[k] \in DOMAIN s2 THEN s2[s1[k]] ELSE s1[k]]
       rest == (DOMAIN s2) \ used
       full == [k \in (DOMAIN s1) \cup rest |-> IF k \in DOMAIN s1 THEN m[k] ELSE s2[k]]
   IN [k \in {x \in DOMAIN full : full[x] # x} |-> full[k]]
OpOfSwap(s) == LET ks == SetToSortSeq(DOMAIN s, <) IN OpPerm(ks, [i \in 1..Len(ks) |-> s[ks[i]]])

\* ---- compress_mode_swaps ----
LinesTouched(o) == IF o[1] = "grp" THEN LET ls == LinesOf(o[3]) IN IF ls = {} THEN {} ELSE Min(ls)..Max(ls)     \* a group blocks its whole span
                   ELSE IF o[1] = "bar" THEN {}
                   ELSE IF o[1] = "perm" THEN {} ELSE {o[2][k] : k \in 1..Len(o[2])}
\* scan the components after position i: returns <<combined swap, set of merged positions>>
Scan(os, i, skip) ==
   FoldLeft(LAMBDA acc, j :
               LET o == os[j] IN
               IF Variant # "merged_twice" /\ j \in skip THEN acc
               ELSE IF o[1] # "perm" THEN <<acc[1], acc[2], acc[3] \cup LinesTouched(o)>>
               ELSE LET sw == SwapOf(o) IN
                    IF (DOMAIN sw) \cap acc[3] # {} THEN <<acc[1], acc[2], acc[3] \cup DOMAIN sw>>
                    ELSE <<Combine(acc[1], sw), acc[2] \cup {j}, acc[3]>>,
            <<SwapOf(os[i]), {}, {}>>, [k \in 1..(Len(os) - i) |-> i + k])
Compress(os) ==
   FoldLeft(LAMBDA acc, i :
               IF i \in acc[2] THEN acc
               ELSE IF os[i][1] # "perm" THEN <<Append(acc[1], os[i]), acc[2]>>
               ELSE LET r == Scan(os, i, acc[2]) IN <<Append(acc[1], OpOfSwap(r[1])), acc[2] \cup r[2]>>,
            <<<<>>, {}>>, [k \in 1..Len(os) |-> k])[1]

\* ---- the op lists in scope ----
Lines == 1..NU
Trans == {OpPerm(<<a, b>>, <<b, a>>) : a \in Lines, b \in Lines} \ {OpPerm(<<a, a>>, <<a, a>>) : a \in Lines}
Cycles == IF SwapLevel >= 2 THEN {OpPerm(<<a, b, c>>, <<b, c, a>>) : a \in Lines, b \in Lines, c \in Lines} ELSE {}
Alphabet ==
     (IF "swap" \in Kinds THEN {o \in Trans \cup Cycles : Cardinality({o[2][k] : k \in 1..Len(o[2])}) = Len(o[2]) /\ o[2][1] = Min({o[2][k] : k \in 1..Len(o[2])})} ELSE {})
\cup (IF "ps" \in Kinds THEN {OpPs(a, 1) : a \in Lines} ELSE {})
\cup (IF "bs" \in Kinds THEN {OpBs(a, b, 1, cv) : a \in Lines, b \in Lines, cv \in {"H"}} \ {OpBs(a, a, 1, "H") : a \in Lines} ELSE {})
\cup (IF "loss" \in Kinds THEN {OpLoss(a, 1) : a \in {1}} ELSE {})
\cup (IF "grp" \in Kinds THEN {OpGrp(<<OpBs(1, NU, 1, "H"), OpPs(NU, 3)>>)}                      \* a group over every line (with a non-adjacent coupler inside)
                              \cup (IF NU >= 3 THEN {OpGrp(<<OpBs(1, NU - 1, 1, "H"), OpPs(NU - 1, 3)>>)} ELSE {})   \* ... and one that leaves the last line free
      ELSE {})
Init == ops = <<>> /\ res = <<<<>>, <<>>>>
Next == Len(ops) < MaxOps /\ \E o \in Alphabet : ops' = Append(ops, o) /\ res' = <<Compress(ops'), ConvertNonAdj(ops')>>
Spec == Init /\ [][Next]_vars

\* ---- properties of the algorithms ----
ConvertPreserves == SemOf(ConvertNonAdj(ops)) = SemOf(ops)
ConvertAdjacent == NoNonAdjBs(ConvertNonAdj(ops), [l \in Lines |-> l])
CompressPreserves == SemOf(Compress(ops)) = SemOf(ops)
CompressShorter == Len(Compress(ops)) <= Len(ops)
=============================================================================
