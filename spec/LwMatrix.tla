------------------------------ MODULE LwMatrix ------------------------------
(***************************************************************************)
(* Square matrices over LwRing as functions [1..n -> [1..n -> elt]].       *)
(* Products are folds (eager in TLC), constructors are TLCEval-ed.         *)
(***************************************************************************)
EXTENDS LwRing

MDim(A) == Len(A)
MId(n) == TLCEval([i \in 1..n |-> [j \in 1..n |-> IF i = j THEN One ELSE Zero]])
MMul(A, B) == LET n == Len(A) IN      \* sparse in the rows of A (embedded components are mostly identity)
   TLCEval([i \in 1..n |-> LET nz == {k \in 1..n : A[i][k] # Zero} IN
              [j \in 1..n |-> FoldSet(LAMBDA k, acc : RAdd(acc, RMul(A[i][k], B[k][j])), Zero, nz)]])
MDag(A) == LET n == Len(A) IN TLCEval([i \in 1..n |-> [j \in 1..n |-> RConj(A[j][i])]])
IsUnitary(A) == MMul(MDag(A), A) = MId(Len(A))
MBlock(A, m) == [i \in 1..m |-> [j \in 1..m |-> A[i][j]]]          \* leading m x m block
\* pad A with identity up to dimension n
MPad(A, n) == LET m == Len(A) IN
   TLCEval([i \in 1..n |-> [j \in 1..n |-> IF i <= m /\ j <= m THEN A[i][j] ELSE IF i = j THEN One ELSE Zero]])
\* 2x2 block <<m11,m12,m21,m22>> acting on indices (a,b) of an n-dim identity
Embed2(n, a, b, m) == TLCEval([i \in 1..n |-> [j \in 1..n |->
      IF i = a /\ j = a THEN m[1] ELSE IF i = a /\ j = b THEN m[2]
      ELSE IF i = b /\ j = a THEN m[3] ELSE IF i = b /\ j = b THEN m[4]
      ELSE IF i = j THEN One ELSE Zero]])
MDiag1(n, a, v) == TLCEval([i \in 1..n |-> [j \in 1..n |-> IF i = j THEN (IF i = a THEN v ELSE One) ELSE Zero]])
\* k x k block B acting on the index sequence idx (B row r/col c sits at idx[r], idx[c])
EmbedK(n, idx, B) == TLCEval([i \in 1..n |-> [j \in 1..n |->
      LET pi == {x \in 1..Len(idx) : idx[x] = i}  pj == {x \in 1..Len(idx) : idx[x] = j} IN
      IF pi # {} /\ pj # {} THEN B[CHOOSE x \in pi : TRUE][CHOOSE y \in pj : TRUE]
      ELSE IF pi = {} /\ pj = {} /\ i = j THEN One ELSE Zero]])
\* permutation: a photon on index from[k] leaves on index to[k]; other indices fixed
PermMat(n, from, to) ==
   LET img(j) == IF \E k \in 1..Len(from) : from[k] = j THEN to[CHOOSE k \in 1..Len(from) : from[k] = j] ELSE j
   IN TLCEval([i \in 1..n |-> [j \in 1..n |-> IF i = img(j) THEN One ELSE Zero]])
\* re-index: old index x of M goes to map[x] in dimension n, identity elsewhere
ReEmbed(M, map, n) == EmbedK(n, map, M)

\* ---- documented component matrices (docs/sdk: Rx and H conventions) ----
\* theta = 2 acos(sqrt r):  Rx = [[c, i s],[i s, c]]   H = [[c, s],[s, -c]]
BsBlock(rid, cv) == LET r == ReflVal(rid) IN
   IF cv = "Rx" THEN <<r[1], RMul(Im, r[2]), RMul(Im, r[2]), r[1]>>
   ELSE <<r[1], r[2], r[2], RNeg(r[1])>>
\* loss dilation on (mode, fresh loss line): [[sqrt t, -sqrt l],[sqrt l, sqrt t]]  (one admissible choice)
LossBlock(q) == LET v == LossVal(q) IN <<v[1], RNeg(v[2]), v[2], v[1]>>

\* ---- named 2x2 unitary blocks (ids) for Unitary components ----
H2  == <<RSqrtHalf, RSqrtHalf, RSqrtHalf, RNeg(RSqrtHalf)>>
UBlock2(id) ==          \* row-major <<m11,m12,m21,m22>>
   IF id = "H" THEN H2
   ELSE IF id = "X" THEN <<Zero, One, One, Zero>>
   ELSE IF id = "Y" THEN <<Zero, RNeg(Im), Im, Zero>>
   ELSE IF id = "S" THEN <<One, Zero, Zero, Im>>
   ELSE IF id = "T" THEN <<One, Zero, Zero, W8>>
   ELSE IF id = "SH" THEN <<RSqrtHalf, RSqrtHalf, RMul(Im, RSqrtHalf), RNeg(RMul(Im, RSqrtHalf))>>   \* S.H (non-symmetric)
   ELSE <<One, Zero, Zero, One>>
Mat2(b) == << <<b[1], b[2]>>, <<b[3], b[4]>> >>
\* 3x3 blocks: cyclic permutation with phases (non-symmetric), ids "C3", "C3i"
UBlock3(id) ==
   IF id = "C3" THEN << <<Zero, Zero, One>>, <<Im, Zero, Zero>>, <<Zero, RNeg(One), Zero>> >>
   ELSE << <<One, Zero, Zero>>, <<Zero, RSqrtHalf, RSqrtHalf>>, <<Zero, RSqrtHalf, RNeg(RSqrtHalf)>> >>
UBlock(id, k) == IF k = 2 THEN Mat2(UBlock2(id)) ELSE UBlock3(id)
=============================================================================
