------------------------------- MODULE LwRing -------------------------------
(***************************************************************************)
(* Exact arithmetic for the lightworks specifications.                     *)
(*                                                                         *)
(* A ring element is the 5-tuple <<a,b,c,d,k>> and denotes                 *)
(*        (a + b*s + c*i + d*i*s) / 2^k        with s = sqrt(2), i^2 = -1  *)
(* i.e. an element of R = Z[i, sqrt 2][1/2].  Elements are kept in normal  *)
(* form (k minimal, zero = <<0,0,0,0,0>>) so that equality of values is    *)
(* equality of tuples.  Every 50:50 / 0 / 1 beam splitter, every phase     *)
(* that is a multiple of pi/4, loss 0, 1/2, 1 and every permutation has    *)
(* entries in R, and so have all permanents built from them.               *)
(***************************************************************************)
EXTENDS Integers, Sequences, FiniteSets, TLC, SequencesExt, FiniteSetsExt, Functions

Even(x) == x % 2 = 0
RECURSIVE RNorm(_)
RNorm(x) == IF x[1] = 0 /\ x[2] = 0 /\ x[3] = 0 /\ x[4] = 0 THEN <<0,0,0,0,0>>
            ELSE IF x[5] > 0 /\ Even(x[1]) /\ Even(x[2]) /\ Even(x[3]) /\ Even(x[4])
            THEN RNorm(<<x[1] \div 2, x[2] \div 2, x[3] \div 2, x[4] \div 2, x[5] - 1>>)
            ELSE x
Zero == <<0,0,0,0,0>>
One  == <<1,0,0,0,0>>
Im   == <<0,0,1,0,0>>
RSqrtHalf == <<0,1,0,0,1>>          \* 1/sqrt 2
RHalf == <<1,0,0,0,1>>
RInt(n) == RNorm(<<n,0,0,0,0>>)
RScale(x, k) == LET f == 2^(k - x[5]) IN <<x[1]*f, x[2]*f, x[3]*f, x[4]*f, k>>
RAdd(x, y) == IF x[1] = 0 /\ x[2] = 0 /\ x[3] = 0 /\ x[4] = 0 THEN y
              ELSE IF y[1] = 0 /\ y[2] = 0 /\ y[3] = 0 /\ y[4] = 0 THEN x ELSE
              LET k == IF x[5] > y[5] THEN x[5] ELSE y[5]
                  xx == RScale(x, k)  yy == RScale(y, k)
              IN RNorm(<<xx[1]+yy[1], xx[2]+yy[2], xx[3]+yy[3], xx[4]+yy[4], k>>)
RMul(x, y) == IF (x[1] = 0 /\ x[2] = 0 /\ x[3] = 0 /\ x[4] = 0) \/ (y[1] = 0 /\ y[2] = 0 /\ y[3] = 0 /\ y[4] = 0) THEN <<0,0,0,0,0>>
              ELSE IF x = <<1,0,0,0,0>> THEN y ELSE IF y = <<1,0,0,0,0>> THEN x ELSE
              RNorm(<< x[1]*y[1] + 2*x[2]*y[2] - x[3]*y[3] - 2*x[4]*y[4],
                       x[1]*y[2] + x[2]*y[1] - x[3]*y[4] - x[4]*y[3],
                       x[1]*y[3] + x[3]*y[1] + 2*x[2]*y[4] + 2*x[4]*y[2],
                       x[1]*y[4] + x[4]*y[1] + x[2]*y[3] + x[3]*y[2],
                       x[5] + y[5] >>)
RNeg(x)  == <<-x[1], -x[2], -x[3], -x[4], x[5]>>
RSub(x, y) == RAdd(x, RNeg(y))
RConj(x) == <<x[1], x[2], -x[3], -x[4], x[5]>>
RAbsSq(x) == RMul(x, RConj(x))
IsReal(x) == x[3] = 0 /\ x[4] = 0
\* sign of a real element (a + b s)/2^k : compare a with -b s
RSign(x) == LET a == x[1]  b == x[2] IN
            IF a >= 0 /\ b >= 0 THEN (IF a = 0 /\ b = 0 THEN 0 ELSE 1)
            ELSE IF a <= 0 /\ b <= 0 THEN -1
            ELSE IF a > 0 THEN (IF a*a > 2*b*b THEN 1 ELSE -1)      \* b < 0
            ELSE (IF 2*b*b > a*a THEN 1 ELSE -1)                    \* a < 0, b > 0
RLeq(x, y) == RSign(RSub(y, x)) >= 0
IsRingElt(x) == /\ x \in Seq(Int) /\ Len(x) = 5 /\ x[5] >= 0 /\ RNorm(x) = x

RSumSeq(s) == FoldLeft(LAMBDA acc, e : RAdd(acc, e), Zero, s)
RProdSeq(s) == FoldLeft(LAMBDA acc, e : RMul(acc, e), One, s)
RSumSet(S, f(_)) == FoldSet(LAMBDA x, acc : RAdd(acc, f(x)), Zero, S)

\* ---- value tables shared by every specification ------------------------
\* phase id p (0..7) denotes exp(i p pi/4)
W8 == RMul(RSqrtHalf, RAdd(One, Im))
PhaseVal(p) == LET q == p % 8 IN
   IF q = 0 THEN One ELSE IF q = 1 THEN W8 ELSE IF q = 2 THEN Im ELSE IF q = 3 THEN RMul(Im, W8)
   ELSE IF q = 4 THEN RNeg(One) ELSE IF q = 5 THEN RNeg(W8) ELSE IF q = 6 THEN RNeg(Im) ELSE RNeg(RMul(Im, W8))
\* reflectivity id r (0,1,2) denotes reflectivity 0, 1/2, 1 : <<sqrt r, sqrt(1-r)>>
ReflVal(r) == IF r = 0 THEN <<Zero, One>> ELSE IF r = 1 THEN <<RSqrtHalf, RSqrtHalf>> ELSE <<One, Zero>>
\* loss id q (0,1,2) denotes loss 0, 1/2, 1 : <<sqrt(1-loss), sqrt(loss)>>
LossVal(q) == IF q = 0 THEN <<One, Zero>> ELSE IF q = 1 THEN <<RSqrtHalf, RSqrtHalf>> ELSE <<Zero, One>>

\* ---- rationals <<num, den>> with den > 0 (not normalised; compare by cross-multiplication)
QEq(p, q) == p[1] * q[2] = q[1] * p[2]
QLeq(p, q) == p[1] * q[2] <= q[1] * p[2]
QAdd(p, q) == <<p[1]*q[2] + q[1]*p[2], p[2]*q[2]>>
QMul(p, q) == <<p[1]*q[1], p[2]*q[2]>>
QSub(p, q) == <<p[1]*q[2] - q[1]*p[2], p[2]*q[2]>>
RECURSIVE Gcd(_,_)
Gcd(a, b) == IF b = 0 THEN (IF a < 0 THEN -a ELSE a) ELSE Gcd(b, a % b)
QNorm(p) == LET g == Gcd(p[1], p[2]) IN IF g = 0 THEN <<0,1>> ELSE <<p[1] \div g, p[2] \div g>>
QSumSeq(s) == FoldLeft(LAMBDA acc, e : QNorm(QAdd(acc, e)), <<0,1>>, s)
RECURSIVE Fact(_)
Fact(n) == IF n <= 1 THEN 1 ELSE n * Fact(n - 1)
=============================================================================
