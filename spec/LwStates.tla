------------------------------ MODULE LwStates ------------------------------
(***************************************************************************)
(* State / AnnotatedState algebra and herald bookkeeping (C18).            *)
(* Init chooses operands; the single step Compute records the result of    *)
(* every operation so that TLC's state dump can be replayed on the real    *)
(* classes.  The algebraic laws are invariants over the chosen operands.   *)
(***************************************************************************)
EXTENDS Integers, Sequences, FiniteSets, TLC, SequencesExt, FiniteSetsExt, Functions

CONSTANTS MaxLen, MaxOcc, MaxHer
Occ == UNION {[1..n -> 0..MaxOcc] : n \in 1..MaxLen}
VARIABLES a, b, c, h, lo, hi, res
vars == <<a, b, c, h, lo, hi, res>>

Concat(x, y) == x \o y
MergeS(x, y) == [i \in 1..Len(x) |-> x[i] + y[i]]
NPh(x) == FoldLeft(LAMBDA p, q : p + q, 0, x)
Slice(x, i, j) == SubSeq(x, i + 1, j)                       \* python x[i:j], 0 <= i <= j <= Len(x)
\* heralds: h is a set of <<position (0-based, in the FULL state), photons>> with distinct positions
HPos(hs) == {p[1] : p \in hs}
AddHeralds(s, hs) ==
   LET n == Len(s) + Cardinality(hs)
       free == SetToSortSeq((0..(n - 1)) \ HPos(hs), <)
   IN [i \in 1..n |-> IF (i - 1) \in HPos(hs) THEN (CHOOSE p \in hs : p[1] = i - 1)[2]
                      ELSE s[CHOOSE k \in 1..Len(free) : free[k] = i - 1]]
RemoveHeralds(s, pos) == LET keep == SetToSortSeq((0..(Len(s) - 1)) \ pos, <) IN [k \in 1..Len(keep) |-> s[keep[k] + 1]]
HeraldSets(n) == {hs \in SUBSET ((0..(n - 1)) \X (0..MaxOcc)) : Cardinality(hs) <= MaxHer /\ Cardinality(HPos(hs)) = Cardinality(hs)}

Init == /\ a \in Occ
        /\ b \in {a, Reverse(a), [i \in 1..Len(a) |-> (a[i] + 1) % (MaxOcc + 1)]}
        /\ c \in {<<1>>, <<0, 2>>}
        /\ h \in HeraldSets(Len(a) + MaxHer) /\ HPos(h) \subseteq 0..(Len(a) + Cardinality(h) - 1)
        /\ lo \in 0..Len(a) /\ hi \in 0..Len(a) /\ lo <= hi
        /\ res = <<>>
Compute == /\ res = <<>>
           /\ res' = [add |-> Concat(a, c), merge |-> MergeS(a, b), slice |-> Slice(a, lo, hi), eq |-> (a = b),
                      nph |-> NPh(a), nmodes |-> Len(a), with |-> AddHeralds(a, h), back |-> RemoveHeralds(AddHeralds(a, h), HPos(h))]
           /\ UNCHANGED <<a, b, c, h, lo, hi>>
Spec == Init /\ [][Compute]_vars

\* ---- laws ----
RoundTrip == RemoveHeralds(AddHeralds(a, h), HPos(h)) = a
HeraldsInPlace == \A p \in h : AddHeralds(a, h)[p[1] + 1] = p[2]
AddAssoc == Concat(Concat(a, b), c) = Concat(a, Concat(b, c))
MergeComm == MergeS(a, b) = MergeS(b, a)
MergeCounts == NPh(MergeS(a, b)) = NPh(a) + NPh(b) /\ NPh(Concat(a, c)) = NPh(a) + NPh(c) /\ Len(Concat(a, c)) = Len(a) + Len(c)
SliceLaw == Concat(Slice(a, 0, lo), Slice(a, lo, Len(a))) = a /\ Len(Slice(a, lo, hi)) = hi - lo
=============================================================================
