------------------------------ MODULE LwParams ------------------------------
(***************************************************************************)
(* Parameter and ParameterDict as a state machine (C10, second half):      *)
(* a parameter's value lies within its bounds after ANY sequence of        *)
(* accepted or rejected value and bound updates; a rejected update changes *)
(* nothing.                                                                *)
(*                                                                         *)
(* Values are small integers; NN stands for a non-numeric value (a         *)
(* string), NAN for the float NaN (numeric TYPE, but neither >= nor <= any *)
(* number, so never "within" a bound), NONE for "no bound".  A parameter is <<v, lo, hi>>.  The       *)
(* dictionary maps keys 1..NKeys to a parameter id or 0 (absent).          *)
(* `last` records the last call <<name, args, result>> so that behaviours  *)
(* produced by TLC can be replayed into the real objects.                  *)
(***************************************************************************)
EXTENDS Integers, Sequences, FiniteSets, TLC

CONSTANTS NP,          \* number of Parameter objects
          NKeys,       \* dictionary keys
          Vals,        \* numeric values tried
          NN, NONE,    \* codes: non-numeric value, absent bound (integers outside Vals)
          NAN          \* code of float('nan')

VARIABLES par, pd, last
vars == <<par, pd, last>>

Numeric(x) == x \in Vals \cup {NAN}          \* of numeric type
Geq(x, y) == x # NAN /\ y # NAN /\ x >= y    \* IEEE comparisons: anything involving NaN is false
Leq(x, y) == x # NAN /\ y # NAN /\ x <= y
HasBounds(p) == par[p][2] # NONE \/ par[p][3] # NONE
Init == /\ par \in [1..NP -> {<<v, NONE, NONE>> : v \in Vals \cup {NN, NAN}}
                             \cup {<<v, lo, hi>> : v \in Vals, lo \in Vals \cup {NONE}, hi \in Vals \cup {NONE}}]
        /\ \A p \in 1..NP : (par[p][2] # NONE => par[p][1] >= par[p][2]) /\ (par[p][3] # NONE => par[p][1] <= par[p][3])
        /\ pd = [k \in 1..NKeys |-> IF k <= NP /\ k = 1 THEN 1 ELSE 0]
        /\ last = <<"init", <<>>, "ok">>

\* Parameter.set(x)
SetOk(p, x) == /\ (HasBounds(p) => Numeric(x))
               /\ (par[p][2] # NONE => Geq(x, par[p][2]))
               /\ (par[p][3] # NONE => Leq(x, par[p][3]))
Set(p, x) == IF SetOk(p, x)
             THEN par' = [par EXCEPT ![p][1] = x] /\ UNCHANGED pd /\ last' = <<"set", <<p, x>>, "ok">>
             ELSE UNCHANGED <<par, pd>> /\ last' = <<"set", <<p, x>>, "rej">>
\* Parameter.min_bound = b / max_bound = b   (b = NONE removes the bound; b = NN is a non-numeric bound)
MinOk(p, b) == b = NONE \/ (Numeric(par[p][1]) /\ Numeric(b) /\ Geq(par[p][1], b))
MaxOk(p, b) == b = NONE \/ (Numeric(par[p][1]) /\ Numeric(b) /\ Leq(par[p][1], b))
SetMin(p, b) == IF MinOk(p, b)
                THEN par' = [par EXCEPT ![p][2] = b] /\ UNCHANGED pd /\ last' = <<"setmin", <<p, b>>, "ok">>
                ELSE UNCHANGED <<par, pd>> /\ last' = <<"setmin", <<p, b>>, "rej">>
SetMax(p, b) == IF MaxOk(p, b)
                THEN par' = [par EXCEPT ![p][3] = b] /\ UNCHANGED pd /\ last' = <<"setmax", <<p, b>>, "ok">>
                ELSE UNCHANGED <<par, pd>> /\ last' = <<"setmax", <<p, b>>, "rej">>
\* ParameterDict[k] = x  (x a plain value): Set on an existing key, rejected on a new key
DictAssign(k, x) ==
   IF pd[k] # 0 /\ SetOk(pd[k], x)
   THEN par' = [par EXCEPT ![pd[k]][1] = x] /\ UNCHANGED pd /\ last' = <<"dassign", <<k, x>>, "ok">>
   ELSE UNCHANGED <<par, pd>> /\ last' = <<"dassign", <<k, x>>, "rej">>
\* ParameterDict[k] = Parameter q : insert on a new key, rejected on an existing key
DictInsert(k, q) ==
   IF pd[k] = 0
   THEN pd' = [pd EXCEPT ![k] = q] /\ UNCHANGED par /\ last' = <<"dinsert", <<k, q>>, "ok">>
   ELSE UNCHANGED <<par, pd>> /\ last' = <<"dinsert", <<k, q>>, "rej">>
DictRemove(k) ==
   IF pd[k] # 0
   THEN pd' = [pd EXCEPT ![k] = 0] /\ UNCHANGED par /\ last' = <<"dremove", <<k>>, "ok">>
   ELSE UNCHANGED <<par, pd>> /\ last' = <<"dremove", <<k>>, "rej">>

Next == \/ \E p \in 1..NP, x \in Vals \cup {NN, NAN} : Set(p, x)
        \/ \E p \in 1..NP, b \in Vals \cup {NN, NONE, NAN} : SetMin(p, b) \/ SetMax(p, b)
        \/ \E k \in 1..NKeys, x \in Vals \cup {NN, NAN} : DictAssign(k, x)
        \/ \E k \in 1..NKeys, q \in 1..NP : DictInsert(k, q)
        \/ \E k \in 1..NKeys : DictRemove(k)
Spec == Init /\ [][Next]_vars

\* ---- properties ----
InBounds == \A p \in 1..NP : /\ (par[p][2] # NONE => (Numeric(par[p][1]) /\ Geq(par[p][1], par[p][2])))
                             /\ (par[p][3] # NONE => (Numeric(par[p][1]) /\ Leq(par[p][1], par[p][3])))
BoundsNumeric == \A p \in 1..NP : par[p][2] \in Vals \cup {NONE} /\ par[p][3] \in Vals \cup {NONE}
RejectedChangesNothing == [][last'[3] = "rej" => UNCHANGED <<par, pd>>]_vars
\* the dictionary's view is the parameters' view (shared by reference)
DictBounds == \A k \in 1..NKeys : pd[k] \in 0..NP
=============================================================================
