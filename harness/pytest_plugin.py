"""pytest plugin: the repository's own tests as trace sources.

Every public construction call on a lightworks Circuit made at depth 0 (i.e. by the test or by library code that is not
itself inside another recorded Circuit call) is recorded as one event of a trace, one trace per test.  The traces are written
to $LW_TRACE_OUT (pickle) and validated afterwards by LwCircuitTrace + the evaluator.  The tests' assertions are weak, their
circuits are real.  Nothing in /repo is modified: the methods are wrapped at import time of this plugin only.

Usage:  PYTHONPATH=/repo:/verif LW_TRACE_OUT=file.pkl python -m pytest -p harness.pytest_plugin /repo/tests/sdk ...
"""
import math
import os
import pickle

import numpy as np

MAX_OBJS = 10
MAX_EVENTS = 120
_STATE = {"rec": None, "depth": 0, "all": []}


class TestRecorder:
    def __init__(self, name):
        from harness.drivers import circuit_driver as cd
        self.name = name
        self.cd = cd
        self.slots = {}          # id(obj) -> slot
        self.objs = {}           # slot -> obj (strong refs)
        self.values = []         # floats / Parameter objects behind symbolic ids 2000+i
        self.blocks = {}         # unitary block id (3000+i) -> matrix
        self.events = []
        self.tokens = []
        self.ctokens = []
        self.finals = {}
        self.dead = False        # an unsupported call was seen: recording stopped
        self.why = ""

    # ---- value encoding
    def sym(self, v, kind):
        from lightworks.sdk.circuit.parameters import Parameter
        if isinstance(v, Parameter):
            self.values.append(v)
            return 2000 + len(self.values) - 1
        if isinstance(v, bool) or not isinstance(v, (int, float, np.integer, np.floating)):
            return 3                     # not a number: invalid for every kind
        v = float(v)
        if kind in ("refl", "loss"):
            if v == 0.0:
                return 0
            if v == 1.0:
                return 2
            if not (0 <= v <= 1):
                return -1 if v < 0 else 3
        if kind == "phase" and v == 0.0:
            return 0
        self.values.append(v)
        return 2000 + len(self.values) - 1

    @staticmethod
    def mode(m):
        from lightworks.sdk.circuit.parameters import Parameter
        if isinstance(m, bool):
            return 90
        if isinstance(m, (int, np.integer)):
            return int(m)
        if isinstance(m, (float, np.floating)) and int(m) == m:
            return int(m)
        return 91

    def slot_of(self, obj, create=False):
        k = id(obj)
        if k in self.slots:
            return self.slots[k]
        if not create:
            return None
        if len(self.slots) >= MAX_OBJS:
            self.stop("more than %d circuit objects" % MAX_OBJS)
            return None
        s = len(self.slots) + 1
        self.slots[k] = s
        self.objs[s] = obj
        return s

    def stop(self, why):
        self.dead = True
        self.why = why

    def _tok(self, c):
        from harness.adapters import circuit as ad
        key = ad.snapshot(c)
        for i, k in enumerate(self.tokens):
            if k == key:
                return i + 1
        self.tokens.append(key)
        return len(self.tokens)

    def ctok(self, c):
        from harness.adapters import circuit as ad
        if c is None:
            return 0
        key = ad.snapshot(c).core()
        for i, k in enumerate(self.ctokens):
            if k == key:
                return i + 1
        self.ctokens.append(key)
        return len(self.ctokens)

    def toks(self):
        return tuple(self._tok(self.objs[s]) if s in self.objs else 0 for s in range(1, MAX_OBJS + 1))

    def record(self, op, t, args, res, pre=None):
        if self.dead:
            return
        if len(self.events) >= MAX_EVENTS:
            self.stop("more than %d events" % MAX_EVENTS)
            return
        ob = self.cd.observe(self.objs.get(t), False)
        ob.pop("_V", None)
        ob["ctok"] = self.ctok(self.objs.get(t))
        if pre is None:
            pre = dict(self.cd.DEAD)
        self.events.append({"op": op, "t": t, "a": tuple(args), "res": res, "obs": ob, "toks": self.toks(), "pre": pre})
        # the state every object has NOW is what the trace explains (later unrecorded manipulation must not be compared)
        o = self.objs.get(t)
        if o is not None:
            try:
                self.finals[t] = {"U": o.U_full.copy(), "n_modes": o.n_modes, "internal": list(o._internal_modes), "heralds": o.heralds,
                                  "input_modes": o.input_modes, "values": self.resolved()}
            except Exception as e:  # noqa: BLE001
                self.finals[t] = {"err": "%s: %s" % (type(e).__name__, e)}

    def resolved(self):
        """the numbers behind the symbolic ids NOW (Parameters are live)"""
        from lightworks.sdk.circuit.parameters import Parameter
        vals = []
        for v in self.values:
            try:
                vals.append(float(v.get()) if isinstance(v, Parameter) else float(v))
            except Exception:  # noqa: BLE001
                vals.append(float("nan"))
        return vals

    def finish(self):
        vals = self.resolved()
        init = {"op": "init", "t": 0, "a": (), "res": "ok", "circ": tuple(dict(self.cd.NULLC) for _ in range(MAX_OBJS)), "num": False,
                "toks": tuple(0 for _ in range(MAX_OBJS))}
        finals = self.finals
        return {"test": self.name, "events": [init] + self.events, "values": vals, "blocks": self.blocks, "finals": finals,
                "truncated": self.why}


def _wrap(cls, name, handler):
    orig = cls.__dict__.get(name)
    if orig is None:
        return
    import functools

    @functools.wraps(orig)
    def wrapper(self, *a, **kw):
        rec = _STATE["rec"]
        if rec is None or rec.dead or _STATE["depth"] > 0:
            return orig(self, *a, **kw)
        # an object whose observable state changed since the last recorded event was manipulated outside the public
        # construction calls (tests that poke private attributes): such a history is not a behaviour of the API
        t0 = rec.slots.get(id(self))
        if t0 and rec.events and rec.events[-1]["toks"][t0 - 1] not in (0, rec._tok(self)):
            rec.stop("object changed outside the recorded public calls")
            return orig(self, *a, **kw)
        _STATE["depth"] += 1
        pre = None
        try:
            prep = handler(rec, self, a, kw, None, None, True)     # pre-call: may snapshot
            if isinstance(prep, dict):
                pre = prep
        except Exception:  # noqa: BLE001
            pass
        try:
            out = orig(self, *a, **kw)
            exc = None
        except Exception as e:  # noqa: BLE001
            out, exc = None, e
        finally:
            _STATE["depth"] -= 1
        try:
            handler(rec, self, a, kw, out, exc, False, pre)
        except Exception as e:  # noqa: BLE001
            rec.stop("recorder error in %s: %s: %s" % (name, type(e).__name__, e))
        if exc is not None:
            raise exc
        return out
    setattr(cls, name, wrapper)


def _arg(a, kw, i, key, default=None):
    if len(a) > i:
        return a[i]
    return kw.get(key, default)


def install():
    import lightworks as lw
    from lightworks.sdk.circuit.circuit import Circuit
    from lightworks.sdk.circuit.unitary import Unitary

    def res_of(exc):
        return "ok" if exc is None else "raise"

    def h_init(rec, self, a, kw, out, exc, before, pre=None):
        if before or exc is not None:
            return
        if isinstance(self, Unitary):
            return                       # recorded by Unitary.__init__
        t = rec.slot_of(self, create=True)
        if t:
            rec.record("new", t, (int(self.n_modes),), "ok")

    def h_uinit(rec, self, a, kw, out, exc, before, pre=None):
        if before or exc is not None:
            return
        t = rec.slot_of(self, create=True)
        if t:
            bid = 3000 + len(rec.blocks)
            rec.blocks[bid] = np.array(_arg(a, kw, 0, "unitary"), dtype=complex)
            rec.record("newu", t, (int(self.n_modes), bid), "ok")

    def target(rec, self):
        t = rec.slot_of(self)
        if t is None:
            rec.stop("call on an unregistered circuit")
        return t

    def h_bs(rec, self, a, kw, out, exc, before, pre=None):
        if before:
            return
        t = target(rec, self)
        if t is None:
            return
        m1 = _arg(a, kw, 0, "mode_1")
        m2 = _arg(a, kw, 1, "mode_2")
        if m2 is None:
            m2 = m1 + 1 if isinstance(m1, (int, np.integer)) and not isinstance(m1, bool) else 91
        cv = _arg(a, kw, 4, "convention", "Rx")
        lossv = _arg(a, kw, 3, "loss", 0)
        rec.record("bs", t, (rec.mode(m1), rec.mode(m2), rec.sym(_arg(a, kw, 2, "reflectivity", 0.5), "refl"), cv if isinstance(cv, str) else "Q",
                             rec.sym(lossv, "loss")), res_of(exc))

    def h_ps(rec, self, a, kw, out, exc, before, pre=None):
        if before:
            return
        t = target(rec, self)
        if t is None:
            return
        rec.record("ps", t, (rec.mode(_arg(a, kw, 0, "mode")), rec.sym(_arg(a, kw, 1, "phi"), "phase"), rec.sym(_arg(a, kw, 2, "loss", 0), "loss")), res_of(exc))

    def h_loss(rec, self, a, kw, out, exc, before, pre=None):
        if before:
            return
        t = target(rec, self)
        if t is None:
            return
        rec.record("loss", t, (rec.mode(_arg(a, kw, 0, "mode")), rec.sym(_arg(a, kw, 1, "loss", 0), "loss")), res_of(exc))

    def h_barrier(rec, self, a, kw, out, exc, before, pre=None):
        if before:
            return
        t = target(rec, self)
        if t is None:
            return
        ms = _arg(a, kw, 0, "modes")
        rec.record("bar", t, ((99,) if ms is None else tuple(rec.mode(m) for m in ms),), res_of(exc))

    def h_swaps(rec, self, a, kw, out, exc, before, pre=None):
        if before:
            return
        t = target(rec, self)
        if t is None:
            return
        sw = _arg(a, kw, 0, "swaps")
        rec.record("swap", t, (tuple(rec.mode(k) for k in sw), tuple(rec.mode(v) for v in sw.values())), res_of(exc))

    def h_herald(rec, self, a, kw, out, exc, before, pre=None):
        if before:
            return
        t = target(rec, self)
        if t is None:
            return
        n = _arg(a, kw, 0, "n_photons")
        i = _arg(a, kw, 1, "input_mode")
        o = _arg(a, kw, 2, "output_mode")
        if o is None:
            o = i
        nn = int(n) if isinstance(n, (int, np.integer)) and not isinstance(n, bool) else -1
        rec.record("herald", t, (nn, rec.mode(i), rec.mode(o)), res_of(exc))

    def h_add(rec, self, a, kw, out, exc, before, pre=None):
        if before:
            return
        t = target(rec, self)
        if t is None:
            return
        sub = _arg(a, kw, 0, "circuit")
        s = rec.slot_of(sub) if isinstance(sub, Circuit) else None
        if s is None:
            rec.stop("add of an unregistered / non-circuit object")
            return
        rec.record("add", t, (s, rec.mode(_arg(a, kw, 1, "mode", 0)), bool(_arg(a, kw, 2, "group", False))), res_of(exc))

    def h_plus(rec, self, a, kw, out, exc, before, pre=None):
        if before:
            return
        s1 = rec.slot_of(self)
        other = _arg(a, kw, 0, "value")
        s2 = rec.slot_of(other) if isinstance(other, Circuit) else None
        if s1 is None or s2 is None:
            rec.stop("__add__ with an unregistered object")
            return
        if exc is None:
            t = rec.slot_of(out, create=True)
            if t:
                rec.record("plus", t, (s1, s2), "ok")
        else:
            rec.stop("__add__ raised")

    def h_copy(rec, self, a, kw, out, exc, before, pre=None):
        if before:
            return
        s = rec.slot_of(self)
        if s is None or exc is not None:
            rec.stop("copy of an unregistered circuit / copy raised")
            return
        if _arg(a, kw, 0, "freeze_parameters", False):
            rec.stop("copy(freeze_parameters=True) is not part of the trace specification")
            return
        t = rec.slot_of(out, create=True)
        if t:
            rec.record("copy", t, (s,), "ok")

    def rewrite(op):
        def h(rec, self, a, kw, out, exc, before, pre=None):
            t = rec.slot_of(self)
            if before:
                if t is None:
                    return None
                p = rec.cd.observe(self, False)
                p.pop("_V", None)
                p["ctok"] = rec.ctok(self)
                return p
            if t is None:
                rec.stop("rewrite of an unregistered circuit")
                return None
            rec.record(op, t, (), res_of(exc), pre=pre)
            return None
        return h

    _wrap(Circuit, "__init__", h_init)
    _wrap(Unitary, "__init__", h_uinit)
    _wrap(Circuit, "bs", h_bs)
    _wrap(Circuit, "ps", h_ps)
    _wrap(Circuit, "loss", h_loss)
    _wrap(Circuit, "barrier", h_barrier)
    _wrap(Circuit, "mode_swaps", h_swaps)
    _wrap(Circuit, "herald", h_herald)
    _wrap(Circuit, "add", h_add)
    _wrap(Circuit, "__add__", h_plus)
    _wrap(Circuit, "copy", h_copy)
    _wrap(Circuit, "unpack_groups", rewrite("unpack"))
    _wrap(Circuit, "compress_mode_swaps", rewrite("compress"))
    _wrap(Circuit, "remove_non_adjacent_bs", rewrite("nonadj"))


def pytest_configure(config):
    install()


def pytest_runtest_setup(item):
    _STATE["rec"] = TestRecorder(item.nodeid)
    _STATE["depth"] = 0


def pytest_runtest_teardown(item, nextitem):
    rec = _STATE["rec"]
    _STATE["rec"] = None
    if rec is not None and rec.events:
        try:
            _STATE["all"].append(rec.finish())
        except Exception as e:  # noqa: BLE001
            _STATE["all"].append({"test": rec.name, "events": [], "error": "%s: %s" % (type(e).__name__, e)})


def pytest_sessionfinish(session, exitstatus):
    out = os.environ.get("LW_TRACE_OUT")
    if out:
        with open(out, "wb") as fh:
            pickle.dump(_STATE["all"], fh)
