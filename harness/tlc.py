"""TLC runner: builds an MC wrapper module + cfg from Python values, runs TLC under a timeout,
parses counts, violations, error traces and PrintT lines."""
import os
import re
import shutil
import subprocess
import time

from . import tlaval

SPEC_DIR = os.path.join(os.path.dirname(os.path.dirname(os.path.abspath(__file__))), "spec")
WORK_ROOT = os.path.join(os.path.dirname(os.path.dirname(os.path.abspath(__file__))), ".work")
JAR = "/opt/veriftools/tla/tla2tools.jar:/opt/veriftools/tla/CommunityModules-deps.jar"


class MachineryError(Exception):
    """the verification machinery itself failed (exit 2, never a VIOLATION)"""


class TLCResult:
    def __init__(self):
        self.rc = None
        self.out = ""
        self.generated = 0
        self.distinct = 0
        self.depth = 0
        self.violations = []      # list of dict(kind, name, trace)
        self.prints = []          # parsed PrintT values (tuples starting with a string tag)
        self.unparsed_prints = 0
        self.unparsed_text = ""
        self.dump = None
        self.wall = 0.0
        self.timed_out = False
        self.cmd = ""

    @property
    def ok(self):
        return self.rc == 0 and not self.violations


def workdir(name):
    d = os.path.join(WORK_ROOT, name)
    shutil.rmtree(d, ignore_errors=True)
    os.makedirs(d)
    return d


def cleanup(name):
    shutil.rmtree(os.path.join(WORK_ROOT, name), ignore_errors=True)


def write_mc(wd, mc_name, base, consts, extra_defs="", extends=()):
    """MC wrapper: constants become definitions (so negative numbers, tuples, nested sets all work)."""
    lines = ["---- MODULE %s ----" % mc_name, "EXTENDS %s" % ", ".join((base,) + tuple(extends))]
    for k, v in consts.items():
        lines.append("c_%s == %s" % (k, v if isinstance(v, RawTLA) else tlaval.fmt(v)))
    if extra_defs:
        lines.append(extra_defs)
    lines.append("====")
    with open(os.path.join(wd, mc_name + ".tla"), "w") as fh:
        fh.write("\n".join(lines) + "\n")


class RawTLA(str):
    """a string to be emitted verbatim as a TLA+ expression"""


def write_cfg(wd, mc_name, consts, invariants=(), properties=(), spec="Spec", init=None, next_=None,
              constraints=(), action_constraints=(), view=None, check_deadlock=False, postcondition=None):
    lines = []
    if consts:
        lines.append("CONSTANTS")
        for k in consts:
            lines.append("  %s <- c_%s" % (k, k))
    if init:
        lines += ["INIT %s" % init, "NEXT %s" % next_]
    else:
        lines.append("SPECIFICATION %s" % spec)
    for i in invariants:
        lines.append("INVARIANT %s" % i)
    for p in properties:
        lines.append("PROPERTY %s" % p)
    for c in constraints:
        lines.append("CONSTRAINT %s" % c)
    for c in action_constraints:
        lines.append("ACTION_CONSTRAINT %s" % c)
    if view:
        lines.append("VIEW %s" % view)
    if postcondition:
        lines.append("POSTCONDITION %s" % postcondition)
    lines.append("CHECK_DEADLOCK %s" % ("TRUE" if check_deadlock else "FALSE"))
    with open(os.path.join(wd, mc_name + ".cfg"), "w") as fh:
        fh.write("\n".join(lines) + "\n")


def copy_specs(wd, modules=None):
    for f in os.listdir(SPEC_DIR):
        if f.endswith(".tla") and (modules is None or f[:-4] in modules):
            shutil.copy(os.path.join(SPEC_DIR, f), wd)


_STATE_HDR = re.compile(r"^State (\d+): ?(.*)$")


def _parse_traces(out):
    """split TLC stdout into violations with their error traces"""
    viols = []
    cur = None
    lines = out.split("\n")
    i = 0
    while i < len(lines):
        ln = lines[i]
        m = re.match(r"^Error: (Invariant|Action property|Property) (\S+) is violated", ln)
        if m:
            cur = {"kind": m.group(1), "name": m.group(2).rstrip("."), "trace": []}
            viols.append(cur)
        elif ln.startswith("Error: Temporal properties were violated"):
            cur = {"kind": "Temporal", "name": "temporal", "trace": []}
            viols.append(cur)
        elif ln.startswith("Error: Deadlock reached"):
            cur = {"kind": "Deadlock", "name": "deadlock", "trace": []}
            viols.append(cur)
        else:
            mh = _STATE_HDR.match(ln)
            if mh and cur is not None:
                buf = []
                i += 1
                while i < len(lines) and lines[i].strip() != "":
                    buf.append(lines[i])
                    i += 1
                try:
                    st = tlaval.parse_state_text("\n".join(buf))
                except Exception:
                    st = {"_raw": "\n".join(buf)}
                st["_action"] = mh.group(2)
                cur["trace"].append(st)
        i += 1
    return viols


def run(wd, mc_name, workers=16, timeout=600, dump=False, cont=False, coverage=False, simulate=None,
        depth=None, seed=None, dfs=False, env_extra=None, heap="8g"):
    res = TLCResult()
    cmd = ["java", "-XX:+UseParallelGC", "-Xmx" + heap]
    if dfs:
        cmd.append("-Dtlc2.tool.queue.IStateQueue=StateDeque")
    cmd += ["-cp", JAR, "tlc2.TLC", "-workers", str(workers), "-metadir", os.path.join(wd, "md"),
            "-noGenerateSpecTE", "-config", mc_name + ".cfg"]
    if dump:
        res.dump = os.path.join(wd, mc_name + ".dump")
        cmd += ["-dump", res.dump]
    if cont:
        cmd.append("-continue")
    if coverage:
        cmd += ["-coverage", "1"]
    if simulate:
        cmd += ["-simulate", simulate]
    if depth:
        cmd += ["-depth", str(depth)]
    if seed is not None:
        cmd += ["-seed", str(seed)]
    cmd.append(mc_name + ".tla")
    res.cmd = " ".join(cmd)
    env = dict(os.environ)
    env.pop("JAVA_TOOL_OPTIONS", None)
    if env_extra:
        env.update(env_extra)
    t0 = time.time()
    try:
        p = subprocess.run(cmd, cwd=wd, stdout=subprocess.PIPE, stderr=subprocess.STDOUT, timeout=timeout,
                           env=env, text=True, errors="replace")
        res.rc = p.returncode
        res.out = p.stdout
    except subprocess.TimeoutExpired as e:
        res.timed_out = True
        res.rc = -1
        res.out = (e.stdout or b"").decode(errors="replace") if isinstance(e.stdout, bytes) else (e.stdout or "")
        # only THIS run's TLC (its -metadir is unique to the work directory); a broader pattern would kill the TLC of a concurrent check
        subprocess.run(["pkill", "-f", "tlc2[.]TLC.*" + re.escape(os.path.join(wd, "md"))], check=False)
    res.wall = time.time() - t0
    if res.dump and os.path.exists(res.dump + ".dump"):
        res.dump = res.dump + ".dump"
    m = None
    for m in re.finditer(r"(\d+) states generated, (\d+) distinct states found", res.out):
        pass
    if m:
        res.generated = int(m.group(1))
        res.distinct = int(m.group(2))
    m = re.search(r"depth of the complete state graph search is (\d+)", res.out)
    if m:
        res.depth = int(m.group(1))
    res.violations = _parse_traces(res.out)
    # PrintT values: TLC wraps long values over several lines, so collect from a line starting with <<" until brackets balance
    buf = None
    depth = 0
    for ln in res.out.split("\n"):
        s = ln.strip()
        if buf is None:
            # a PrintT value starts in column 0 with an upper-case tag (state dumps of error traces are indented / start with /\)
            if not re.match(r'^<<\s?"[A-Z]+"', ln):
                continue
            buf = []
            depth = 0
        buf.append(s)
        depth += s.count("<<") + s.count("[") + s.count("(") + s.count("{") - s.count(">>") - s.count("]") - s.count(")") - s.count("}")
        if depth <= 0:
            try:
                res.prints.append(tlaval.parse(" ".join(buf)))
            except Exception:
                res.unparsed_prints += 1
                res.unparsed_text = " ".join(buf)[:600]
            buf = None
    if buf is not None:
        res.unparsed_prints += 1
    return res


def require_clean_run(res, what):
    """raise MachineryError unless TLC finished normally (rc 0) or with a safety violation (rc 12)"""
    if res.timed_out:
        raise MachineryError("%s: TLC timed out after %.0fs" % (what, res.wall))
    if res.rc not in (0, 12, 13):
        tail = "\n".join(res.out.strip().split("\n")[-25:])
        raise MachineryError("%s: TLC failed rc=%s\n%s" % (what, res.rc, tail))
