"""Random drivers that run REAL lightworks circuits and record one event per public call (code -> spec)."""
import math

import numpy as np

import lightworks as lw

from .. import ring
from ..adapters import circuit as ad

NULLC = {"nu": -1, "anc": (), "hord": (), "ops": ()}
DEAD = {"ctok": 0, "live": False, "nm": 0, "im": 0, "upos": (), "apos": (), "hin": (), "hout": (), "U": (), "uerr": False,
        "grp": False, "nadj": False, "nspec": 0}


def observe(c, numeric):
    if c is None:
        return dict(DEAD)
    import numbers

    def pos(p):
        """a mode position as the implementation stores it; anything that is not an integer type becomes the impossible position 999
        (the trace specification then rejects the observation instead of the harness failing to print it)"""
        return int(p) if isinstance(p, numbers.Integral) and not isinstance(p, bool) else 999
    internal = sorted(pos(p) for p in c._internal_modes)
    h = c.heralds
    ob = {"live": True, "nm": c.n_modes, "im": c.input_modes,
          "upos": tuple(p for p in range(c.n_modes) if p not in internal), "apos": tuple(internal),
          "hin": tuple(sorted((pos(p), int(n) if isinstance(n, numbers.Integral) else 999) for p, n in h["input"].items())),
          "hout": tuple(sorted((pos(p), int(n) if isinstance(n, numbers.Integral) else 999) for p, n in h["output"].items())),
          "U": (), "uerr": False}
    try:
        V = c.U_full
        if numeric:
            q = ring.quantise_matrix(V)
            if q is None:
                ob["uerr"] = True      # off-ring: cannot be the specification's value
            else:
                ob["U"] = q
        ob["_V"] = V
    except Exception:  # noqa: BLE001
        ob["uerr"] = True
    spec = c._get_circuit_spec()
    ob["grp"] = ad.has_group(spec)
    ob["nadj"] = ad.non_adjacent_bs(spec)
    ob["nspec"] = len(spec)
    return ob


class Recorder:
    """Events: op, t (target), a (args), res, obs (full observation of the TARGET after the call), toks (one token per
    object slot after the call: equal tokens <=> equal observable state), pre (target before: full for unpack, else light)"""

    def __init__(self, objs, records, numeric):
        self.objs = objs
        self.numeric = numeric
        self.nslots = len(records)
        self.tokens = []
        self.ctokens = []
        self.floatU = []
        self.events = [{"op": "init", "t": 0, "a": (), "res": "ok", "circ": tuple(records), "num": numeric,
                        "toks": self._toks()}]

    def _tok(self, c):
        if c is None:
            return 0
        key = ad.snapshot(c)
        for i, k in enumerate(self.tokens):
            if k == key:
                return i + 1
        self.tokens.append(key)
        return len(self.tokens)

    def _toks(self):
        return tuple(self._tok(self.objs.get(o)) for o in range(1, self.nslots + 1))

    def _ctok(self, c):
        if c is None:
            return 0
        key = ad.snapshot(c).core()
        for i, k in enumerate(self.ctokens):
            if k == key:
                return i + 1
        self.ctokens.append(key)
        return len(self.ctokens)

    def call(self, op, t, args, fn):
        pre = observe(self.objs.get(t), self.numeric and op == "unpack")
        pre.pop("_V", None)
        pre["ctok"] = self._ctok(self.objs.get(t))
        try:
            fn()
            res = "ok"
        except Exception:  # noqa: BLE001
            res = "raise"
        ob = observe(self.objs.get(t), self.numeric)
        ob["ctok"] = self._ctok(self.objs.get(t))
        self.floatU.append(ob.pop("_V", None))
        self.events.append({"op": op, "t": t, "a": tuple(args), "res": res, "obs": ob, "toks": self._toks(), "pre": pre})
        return res


PROFILES = {
    # multi-object histories: heralds, (nested) additions, rewrites, copies
    "wiring": dict(sizes=((2, 5), (2, 4), (1, 3)), steps=(6, 14),
                   weights=dict(bs=22, ps=14, loss=8, bar=3, swap=8, u=5, herald=9, add=16, unpack=3, compress=4, nonadj=4, copy=2, plus=2)),
    # one larger circuit built from plain components only
    "components": dict(sizes=((3, 8), (1, 1), (1, 1)), steps=(8, 20), only=1,
                       weights=dict(bs=30, ps=16, loss=12, bar=4, swap=12, u=10, herald=0, add=0, unpack=0, compress=0, nonadj=0, copy=0, plus=0)),
    # rewrite-heavy histories
    # a group carried into a larger circuit by an UNGROUPED add at an offset (object 3 grouped into the otherwise empty object 2, object 2 added to
    # object 1), swaps on both sides, then the rewrites and a few later edits: the carried group must keep blocking / moving with its modes
    "carried": dict(sizes=((5, 7), (3, 4), (2, 2)), steps=(0, 0),
                    plan=((3, "ps", {}), (3, "bs", {}), (2, "add", {"s": 3, "grp": True}), (1, "swap", {}), (1, "add", {"s": 2, "grp": False}), (1, "swap", {}),
                          (1, "any", {}), (1, "compress", {}), (1, "any", {}), (1, "nonadj", {}), (1, "any", {}), (1, "unpack", {}), (1, "any", {})),
                    weights=dict(bs=20, ps=10, loss=5, bar=0, swap=30, u=0, herald=0, add=0, unpack=5, compress=20, nonadj=10, copy=0, plus=0)),
    "rewrites": dict(sizes=((3, 6), (2, 4), (2, 3)), steps=(8, 16),
                     weights=dict(bs=24, ps=8, loss=5, bar=2, swap=20, u=3, herald=5, add=10, unpack=8, compress=14, nonadj=14, copy=5, plus=3)),
}


def gen_trace(rng, numeric=True, profile="wiring", values=None, p_bad=0.06):
    """one random construction history over up to 4 objects.  values: for structure-only traces a list that
    receives the float behind every symbolic id 2000+i"""
    nslots = 4
    prof = PROFILES[profile]
    steps = prof["steps"]
    kinds = list(prof["weights"])
    wts = [prof["weights"][k] for k in kinds]
    ns = [rng.randint(*r) for r in prof["sizes"]]
    objs = {1: lw.Circuit(ns[0]), 2: lw.Circuit(ns[1]), 3: lw.Circuit(ns[2]), 4: None}
    records = [dict(NULLC, nu=ns[0]), dict(NULLC, nu=ns[1]), dict(NULLC, nu=ns[2]), dict(NULLC)]
    rec = Recorder(objs, records, numeric)
    halves = [0]

    def sym(kind):
        """a value id: ring id, or a symbolic id with a float behind it (structure-only traces)"""
        if numeric:
            if kind == "phase":
                return rng.randrange(8)
            if halves[0] >= 8:
                return rng.choice([0, 2])
            v = rng.choice([0, 1, 1, 2])
            halves[0] += v == 1
            return v
        if rng.random() < 0.25:      # boundary values
            return {"phase": rng.randrange(8), "refl": rng.choice([0, 2]), "loss": rng.choice([0, 2])}[kind]
        x = rng.uniform(0, 2 * math.pi) if kind == "phase" else rng.random()
        if kind != "phase" and rng.random() < 0.12:         # values within 1e-10 of fully off / fully on
            x = rng.choice([1e-10, 1 - 1e-10, 3e-12, 1 - 3e-12, 5e-6, 1 - 5e-6, 2e-6, 3e-5])    # below and just above the 1e-9 probability threshold
        if kind == "phase" and rng.random() < 0.1:
            x = rng.choice([-x, x + 2 * math.pi, 1e-12, 1e9 + x, -3e8 - x, 5e7 + x])     # incl. angles many turns away from [0, 2 pi)
        values.append(x)
        return 2000 + len(values) - 1

    def val(kind, i):
        if i >= 2000:
            return values[i - 2000]
        return {"phase": ad.phase, "refl": lambda r: ad.RID[r], "loss": lambda q: ad.LQ[q]}[kind](i)

    def mode(c, bad):
        n = c.n_modes - len(c._internal_modes)   # user-visible modes
        if bad:
            return rng.choice([-1, n, 90, 91])
        return rng.randrange(max(n, 1))

    plan = list(prof.get("plan", ())) or [None] * rng.randint(*steps)
    for step in plan:
        live = [o for o, c in objs.items() if c is not None]
        t = prof["only"] if "only" in prof else rng.choice(live)
        forced = {}
        bad = rng.random() < p_bad
        kind = rng.choices(kinds, wts)[0]
        if step is not None:
            t, k2, forced = step
            kind = kind if k2 == "any" else k2
            bad = False
        c = objs[t]
        nuser = c.n_modes - len(c._internal_modes)
        if kind == "bs":
            m1 = mode(c, bad)
            m2 = mode(c, False)
            if rng.random() < 0.85 and nuser > 1:
                while m2 == m1:
                    m2 = mode(c, False)
            rid = sym("refl") if not (bad and rng.random() < 0.3) else rng.choice([-1, 3])
            cv = rng.choice(["Rx", "H"])
            lq = 0 if rng.random() < 0.7 else sym("loss")
            kw = dict(reflectivity=val("refl", rid) if rid not in (-1, 3) else ad.RID[rid], convention=cv)
            if lq != 0:
                kw["loss"] = val("loss", lq)
            rec.call("bs", t, (m1, m2, rid, cv, lq), lambda: c.bs(ad.mode_arg(m1), ad.mode_arg(m2), **kw))
        elif kind == "ps":
            m = mode(c, bad)
            pid = sym("phase")
            lq = 0 if rng.random() < 0.7 else sym("loss")
            if lq != 0:
                rec.call("ps", t, (m, pid, lq), lambda: c.ps(ad.mode_arg(m), val("phase", pid), loss=val("loss", lq)))
            else:
                rec.call("ps", t, (m, pid, lq), lambda: c.ps(ad.mode_arg(m), val("phase", pid)))
        elif kind == "loss":
            m = mode(c, bad)
            q = sym("loss") if not (bad and rng.random() < 0.3) else rng.choice([-1, 3])
            rec.call("loss", t, (m, q), lambda: c.loss(ad.mode_arg(m), val("loss", q) if q not in (-1, 3) else ad.LQ[q]))
        elif kind == "bar":
            ms = tuple(sorted(rng.sample(range(nuser), rng.randint(0, nuser)))) if nuser else ()
            if bad:
                ms = ms + (nuser,)
            elif rng.random() < 0.3:
                ms = (99,)          # modes = None: all user modes
            rec.call("bar", t, (ms,), lambda: c.barrier() if ms == (99,) else c.barrier(list(ms)))
        elif kind == "swap":
            if nuser < 2:
                continue
            k = rng.randint(2, min(nuser, 4))
            fr = rng.sample(range(nuser), k)
            to = fr[:]
            rng.shuffle(to)
            if bad:
                to[0] = rng.choice([nuser, to[-1]])
            darg = dict(zip(fr, to))       # cleared after the call: the circuit must not hold on to the caller's dictionary

            def _swap():
                try:
                    c.mode_swaps(darg)
                finally:
                    darg.clear()
            rec.call("swap", t, (tuple(fr), tuple(to)), _swap)
        elif kind == "u":
            if not numeric:
                continue
            uid = rng.choice(["H", "SH", "C3", "X", "Y", "T", "B3"])
            k = 3 if uid in ("C3", "B3") else 2
            m = mode(c, bad)
            rec.call("u", t, (m, uid, k), lambda: c.add(lw.Unitary(ad.UBLOCKS[uid].copy()), ad.mode_arg(m)))
        elif kind == "herald":
            n = rng.choice([0, 0, 1, 1, 2])
            i = mode(c, bad)
            o = i if rng.random() < 0.5 else mode(c, False)
            rec.call("herald", t, (n, i, o), (lambda: c.herald(n, ad.mode_arg(i))) if (o == i and rng.random() < 0.7) else (lambda: c.herald(n, ad.mode_arg(i), ad.mode_arg(o))))
        elif kind == "add":
            s = forced.get("s", rng.choice(live))
            sub = objs[s]
            m = mode(c, bad)
            grp = forced.get("grp", rng.random() < 0.4)
            if forced:
                room = (c.n_modes - len(c._internal_modes)) - (sub.n_modes - len(sub.heralds["input"]))
                m = rng.randint(1 if room >= 1 else 0, max(room, 0))          # a valid start mode, preferably not 0
            if c.n_modes + sub.n_modes > 9:
                continue
            rec.call("add", t, (s, m, grp), lambda: c.add(sub, ad.mode_arg(m), group=grp))
        elif kind in ("unpack", "compress", "nonadj"):
            fn = {"unpack": c.unpack_groups, "compress": c.compress_mode_swaps, "nonadj": c.remove_non_adjacent_bs}[kind]
            rec.call(kind, t, (), fn)
        elif kind == "copy":
            free = [o for o, x in objs.items() if x is None]
            if not free:
                continue
            n = free[0]

            def do_copy():
                objs[n] = c.copy()
            rec.call("copy", n, (t,), do_copy)
        elif kind == "plus":
            free = [o for o, x in objs.items() if x is None]
            if not free:
                continue
            n = free[0]
            b = rng.choice(live)

            def do_plus():
                objs[n] = c + objs[b]
            r = rec.call("plus", n, (t, b), do_plus)
    rec.objs = objs
    return rec


def make_init(init):
    """init: {"kind": "sizes", "sizes": [n1, n2, n3]} | {"kind": "tmpl", "pnu": 3, "loss": bool}
    returns (objs, abstract records) for 4 object slots"""
    if init["kind"] == "sizes":
        ns = list(init["sizes"]) + [None] * (4 - len(init["sizes"]))
        objs = {i + 1: (lw.Circuit(n) if n is not None else None) for i, n in enumerate(ns)}
        recs = [dict(NULLC, nu=n) if n is not None else dict(NULLC) for n in ns]
        return objs, recs
    pnu, loss = init.get("pnu", 3), init.get("loss", False)
    t2, t3 = init.get("tnu", (3, 2))
    objs = {1: ad.parent(pnu), 2: ad.template(t2, loss), 3: ad.template(t3, loss), 4: None}
    recs = [ad.parent_record(pnu), ad.template_record(t2, loss), ad.template_record(t3, loss), dict(NULLC)]
    return objs, recs


def run_script(init, calls, numeric=True):
    """execute a fixed call sequence [(op, t, args)...] on real objects and record it"""
    objs, recs = make_init(init)
    rec = Recorder(objs, recs, numeric)
    for op, t, args in calls:
        args = tuple(tuple(a) if isinstance(a, list) else a for a in args)
        rec.call(op, t, args, lambda: ad.apply_event(objs, ("ok", op, t) + tuple(args)))
    rec.objs = objs
    rec.values = []
    return rec
