"""The evaluator: interprets the specification's abstract circuit TERM with float parameters,
using the same definitions as LwMatrix / LwCircuitDefs (embed, multiply, dilate).  It never sees
positions, dictionaries or caches of the implementation, only the term the specification produced.
It is calibrated against TLC's exact values on every run (see props: 'calibration')."""
import itertools
import math

import numpy as np

S = 1 / math.sqrt(2)
UBLOCKS = {
    "H": np.array([[S, S], [S, -S]], dtype=complex),
    "X": np.array([[0, 1], [1, 0]], dtype=complex),
    "Y": np.array([[0, -1j], [1j, 0]], dtype=complex),
    "S": np.array([[1, 0], [0, 1j]], dtype=complex),
    "T": np.array([[1, 0], [0, np.exp(1j * math.pi / 4)]], dtype=complex),
    "SH": np.array([[S, S], [1j * S, -1j * S]], dtype=complex),
    "C3": np.array([[0, 0, 1], [1j, 0, 0], [0, -1, 0]], dtype=complex),
    "B3": np.array([[1, 0, 0], [0, S, S], [0, S, -S]], dtype=complex),
}


def flat(ops):
    out = []
    for o in ops:
        if o[0] == "grp":
            out += flat(o[2])
        else:
            out.append(o)
    return out


SYM = []      # floats behind symbolic value ids 2000+i (set by sem(..., sym=...))


def _val(x, table, pv, blocks=None):
    """x: ring id (int < 1000) | parameter ref (1000..1999) | symbolic id (>= 2000) | ('f', float)"""
    if isinstance(x, tuple) and x and x[0] == "f":
        return float(x[1])
    if isinstance(x, int) and x >= 2000:
        return float(SYM[x - 2000])
    if isinstance(x, int) and x >= 1000:
        x = pv[x - 1001]
        if isinstance(x, tuple) and x and x[0] == "f":
            return float(x[1])
    return table(x)


def refl_value(x, pv=None):
    return _val(x, lambda i: {0: 0.0, 1: 0.5, 2: 1.0}[i], pv)


def loss_value(x, pv=None):
    return _val(x, lambda i: {0: 0.0, 1: 0.5, 2: 1.0}[i], pv)


def phase_value(x, pv=None):
    return _val(x, lambda i: (i % 8) * math.pi / 4, pv)


def sem(c, pv=None, blocks=None, sym=None):
    """matrix of abstract circuit c (dict nu, anc, hord, ops) in index order users, ancillas, loss lines"""
    global SYM
    if sym is not None:
        SYM = sym
    nu = c["nu"]
    k = len(c["anc"])
    ops = flat(c["ops"])
    nloss = sum(1 for o in ops if o[0] == "loss")
    n = nu + k + nloss

    def idx(l):
        return nu + (l - 100) - 1 if l > 100 else l - 1

    U = np.eye(n, dtype=complex)
    t = 0
    for kind, lines, par in ops:
        M = np.eye(n, dtype=complex)
        if kind == "bs":
            a, b = idx(lines[0]), idx(lines[1])
            r = refl_value(par[0], pv)
            cs, sn = math.sqrt(r), math.sqrt(1 - r)
            if par[1] == "Rx":
                M[a, a] = cs; M[a, b] = 1j * sn; M[b, a] = 1j * sn; M[b, b] = cs
            else:
                M[a, a] = cs; M[a, b] = sn; M[b, a] = sn; M[b, b] = -cs
        elif kind == "ps":
            a = idx(lines[0])
            M[a, a] = np.exp(1j * phase_value(par, pv))
        elif kind == "loss":
            a = idx(lines[0])
            L = nu + k + t
            t += 1
            lo = loss_value(par, pv)
            tr, ls = math.sqrt(1 - lo), math.sqrt(lo)
            M[a, a] = tr; M[a, L] = -ls; M[L, a] = ls; M[L, L] = tr
        elif kind == "perm":
            img = {j: j for j in range(n)}
            for f, to in zip(lines, par):
                img[idx(f)] = idx(to)
            M = np.zeros((n, n), dtype=complex)
            for j, i in img.items():
                M[i, j] = 1
        elif kind == "u":
            B = blocks[par] if blocks is not None and par in blocks else UBLOCKS[par]
            ii = [idx(l) for l in lines]
            for r_, i in enumerate(ii):
                for c_, j in enumerate(ii):
                    M[i, j] = B[r_, c_]
        elif kind == "bar":
            pass
        else:
            raise ValueError("unknown op kind %r" % (kind,))
        U = M @ U
    return U


# ---------------------------------------------------------------- Fock space (same definitions as LwFock)
def permanent(A):
    n = A.shape[0]
    if n == 0:
        return 1.0 + 0j
    tot = 0j
    for s in itertools.permutations(range(n)):
        p = 1.0 + 0j
        for i in range(n):
            p *= A[i, s[i]]
        tot += p
    return tot


def expand(occ):
    out = []
    for i, n in enumerate(occ):
        out += [i] * n
    return out


def amplitude(U, ins, outs):
    r = expand(outs)
    c = expand(ins)
    if len(r) != len(c):
        return 0j
    sub = U[np.ix_(r, c)]
    den = 1.0
    for n in list(ins) + list(outs):
        den *= math.factorial(n)
    return permanent(sub) / math.sqrt(den)


def fock_basis(m, n):
    if m == 0:
        return [()] if n == 0 else []
    if m == 1:
        return [(n,)]
    out = []
    for v in range(n + 1):
        for rest in fock_basis(m - 1, n - v):
            out.append((v,) + rest)
    return out
