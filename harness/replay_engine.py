"""Stream a TLC state dump, sample it, and replay every sampled program-as-state in parallel."""
import importlib
import multiprocessing as mp
import os
import random

from . import tlaval


def _worker(args):
    modname, fnname, ctx, texts = args
    fn = getattr(importlib.import_module(modname), fnname)
    out = []
    for txt in texts:
        st = tlaval.parse_state_text(txt)
        out.append(fn(st, ctx))
    return out


def replay_dump(dump_path, modname, fnname, ctx, frac=1.0, seed=0, nproc=16, batch=200, keep=None, limit=None):
    """keep(text) -> bool: cheap textual pre-filter.  Yields the per-state results of fn(state, ctx)."""
    rng = random.Random(seed)

    def batches():
        cur = []
        n = 0
        for txt in tlaval.iter_dump_text(dump_path):
            if keep is not None and not keep(txt):
                continue
            if frac < 1.0 and rng.random() > frac:
                continue
            cur.append(txt)
            n += 1
            if len(cur) >= batch:
                yield (modname, fnname, ctx, cur)
                cur = []
            if limit is not None and n >= limit:
                break
        if cur:
            yield (modname, fnname, ctx, cur)

    ctxm = mp.get_context("fork")
    with ctxm.Pool(nproc) as pool:
        for res in pool.imap_unordered(_worker, batches()):
            for r in res:
                yield r


def count_ops(dump_path, var="op"):
    """vacuity gate input: how often each value of the label variable occurs in the dump"""
    import collections
    import re
    c = collections.Counter()
    pat = re.compile(r'^/\\ %s = "([^"]*)"' % var)
    with open(dump_path) as fh:
        for line in fh:
            m = pat.match(line)
            if m:
                c[m.group(1)] += 1
    return c


def _sim_worker(args):
    modname, fnname, ctx, paths = args
    fn = getattr(importlib.import_module(modname), fnname)
    out = []
    for p in paths:
        sts = tlaval.sim_states(p)
        if sts:
            out.append(fn(sts[-1], ctx))
    return out


def replay_sim(simdir, modname, fnname, ctx, nproc=16, batch=50):
    """replay the final state of every behaviour file written by `tlc -simulate file=<simdir>/tr,...`"""
    paths = sorted(os.path.join(simdir, f) for f in os.listdir(simdir))
    jobs = [(modname, fnname, ctx, paths[i:i + batch]) for i in range(0, len(paths), batch)]
    ctxm = mp.get_context("fork")
    with ctxm.Pool(nproc) as pool:
        for res in pool.imap_unordered(_sim_worker, jobs):
            for r in res:
                yield r
