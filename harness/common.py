"""Evidence files, verdict lines, replay files, known findings, shared by every check."""
import hashlib
import json
import os
import sys
import time

ROOT = os.path.dirname(os.path.dirname(os.path.abspath(__file__)))
EVID = os.path.join(ROOT, "evidence")
REPLAYS = os.path.join(ROOT, "replays")
FINDINGS = os.path.join(ROOT, "known_findings.json")


def seed_from_env(default=20260926):
    try:
        return int(os.environ.get("VERIF_SEED", default))
    except ValueError:
        return default


def load_findings():
    if not os.path.exists(FINDINGS):
        return []
    with open(FINDINGS) as fh:
        return json.load(fh).get("findings", [])


def jsonable(x):
    if isinstance(x, (str, int, float, bool)) or x is None:
        return x
    if isinstance(x, (tuple, list)):
        return [jsonable(v) for v in x]
    if isinstance(x, (set, frozenset)):
        return sorted((jsonable(v) for v in x), key=repr)
    if isinstance(x, dict):
        return {str(k): jsonable(v) for k, v in x.items()}
    return repr(x)


class Check:
    """Collects what one run of one property check covered and found."""

    def __init__(self, pid, tier, level="model_checking"):
        self.pid = pid
        self.tier = tier
        self.level = level
        self.seed = seed_from_env()
        self.t0 = time.time()
        self.states = 0
        self.transitions = 0
        self.traces_validated = 0
        self.evaluations = 0
        self.nontrivial = set()
        self.samples = []
        self.violations = []       # dict(clause, detail, script); at most 3 kept per clause
        self.n_violations = 0
        self.by_clause = {}
        self.known_hits = []
        self.drift = []
        self.phases = []
        self.rule = ""
        self.exhaustive = False
        self.assumptions = []
        self.extra = {}
        self.findings = [f for f in load_findings() if f.get("property") == pid or pid in f.get("properties", [])]

    # -- bookkeeping
    def add_tlc(self, name, res, note=""):
        self.states += res.distinct
        self.transitions += res.generated
        self.phases.append({"phase": name, "engine": "TLC", "distinct_states": res.distinct, "states_generated": res.generated,
                            "depth": res.depth, "wall_s": round(res.wall, 1), "note": note})

    def add_phase(self, name, **kw):
        d = {"phase": name}
        d.update(kw)
        self.phases.append(d)

    def sample(self, s):
        if len(self.samples) < 6:
            self.samples.append(jsonable(s))

    def count(self, key=None, nontrivial=True):
        self.evaluations += 1
        if key is not None and nontrivial:
            self.nontrivial.add(key if isinstance(key, (str, int)) else hashlib.sha1(repr(key).encode()).hexdigest())

    # -- verdicts
    def violation(self, clause, detail, script=None, sig=None):
        """sig: dict describing the failing call site / history shape, matched against open known findings"""
        for f in self.findings:
            if f.get("status") == "open" and sig is not None and _sig_match(f.get("signature", {}), sig):
                if f["id"] not in [k["id"] for k in self.known_hits]:
                    self.known_hits.append({"id": f["id"], "what": f.get("what", ""), "example": detail})
                return False
        self.n_violations += 1
        self.by_clause[clause] = self.by_clause.get(clause, 0) + 1
        if self.by_clause[clause] <= 3:
            self.violations.append({"clause": clause, "detail": detail, "script": jsonable(script), "sig": jsonable(sig)})
        return True

    def write_replay(self, v):
        d = os.path.join(REPLAYS, self.pid)
        os.makedirs(d, exist_ok=True)
        body = json.dumps({"property": self.pid, "tier": self.tier, "seed": self.seed, **v}, indent=1, sort_keys=True)
        path = os.path.join(d, hashlib.sha1(body.encode()).hexdigest()[:12] + ".json")
        with open(path, "w") as fh:
            fh.write(body)
        return path

    def finish(self):
        wall = time.time() - self.t0
        cov = {
            "states": self.states,
            "transitions": self.transitions,
            "traces_validated_against_impl": self.traces_validated,
            "evaluations": max(self.evaluations, 0),
            "distinct_nontrivial": len(self.nontrivial),
            "rule": self.rule,
            "samples": self.samples if self.samples else ["(none)"],
            "exhaustive": self.exhaustive,
            "phases": self.phases,
            "drift": self.drift[:10],
            "known_findings_hit": self.known_hits,
        }
        if self.level == "other":
            cov["explanation"] = self.extra.get("explanation", self.rule)
        cov.update({k: v for k, v in self.extra.items() if k != "explanation"})
        ev = {"property_id": self.pid, "tier": self.tier, "seed": self.seed, "level": self.level, "coverage": cov,
              "assumptions": self.assumptions, "wall_s": round(wall, 2), "violations": self.n_violations}
        os.makedirs(EVID, exist_ok=True)
        with open(os.path.join(EVID, self.pid + ".json"), "w") as fh:
            json.dump(ev, fh, indent=1)
        for k in self.known_hits:
            print("KNOWN-FINDING: property=%s %s: %s" % (self.pid, k["id"], k["what"]))
        for d in self.drift[:5]:
            print("DRIFT: %s" % (d,))
        if self.violations:
            seen = set()
            for v in self.violations[:20]:
                path = self.write_replay(v)
                if path in seen:
                    continue
                seen.add(path)
                print("VIOLATION property=%s replay=%s" % (self.pid, path))
                print("  clause=%s %s" % (v["clause"], str(v["detail"])[:300]))
            print("%s: %d violation(s) %s; %d evaluations, %d TLC states, %.1fs" % (self.pid, self.n_violations, self.by_clause, self.evaluations, self.states, wall))
            return 1
        print("%s: OK  tier=%s  TLC states=%d  traces/replays validated=%d  evaluations=%d  distinct non-trivial=%d  %.1fs"
              % (self.pid, self.tier, self.states, self.traces_validated, self.evaluations, len(self.nontrivial), wall))
        return 0


def library_raised(exc):
    """True iff the exception was raised below a lightworks frame (the code under test), False if it comes from the harness itself"""
    import traceback
    frames = traceback.extract_tb(exc.__traceback__)
    last_harness = max((i for i, f in enumerate(frames) if f.filename.startswith(os.path.join(ROOT, "harness") + os.sep)), default=-1)
    return any("/lightworks/" in f.filename for f in frames[last_harness + 1:])


def guard(fn, *a, **kw):
    """run fn; an exception from the library becomes ('raised', message), one from the harness propagates"""
    try:
        return ("ok", fn(*a, **kw))
    except Exception as e:  # noqa: BLE001
        if library_raised(e):
            return ("raised", "%s: %s" % (type(e).__name__, e))
        raise


def _sig_match(pattern, sig):
    return all(sig.get(k) == v for k, v in pattern.items())


def main_wrapper(fn):
    """run a check function, mapping machinery failures to exit 2"""
    from .tlc import MachineryError
    try:
        rc = fn()
    except MachineryError as e:
        print("MACHINERY-FAILURE: %s" % e, file=sys.stderr)
        sys.exit(2)
    except Exception:  # noqa: BLE001
        import traceback
        traceback.print_exc()
        print("MACHINERY-FAILURE: unexpected exception in the harness", file=sys.stderr)
        sys.exit(2)
    sys.exit(rc)
