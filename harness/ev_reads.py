"""Evaluator side of the read actions: the definitions of LwEmuDefs (FullIn / FullOut, SimTable, SamplerDist, AnalyzerTable,
QuickTable) with floats.  Calibrated against TLC's exact results on every ring run (adapters.circuit.replay_read)."""
import itertools
import math

import numpy as np

from . import ev


def layout(c):
    nu, k = c["nu"], len(c["anc"])
    hin = {h[0] - 1: h[2] for h in c["hord"]}
    hout = {h[1] - 1: h[2] for h in c["hord"]}
    for j, n in enumerate(c["anc"]):
        hin[nu + j] = n
        hout[nu + j] = n
    free_in = [i for i in range(nu) if i not in hin]
    free_out = [i for i in range(nu) if i not in hout]
    return nu, k, free_in, free_out, hin, hout


def full(n, free, occ, fixed):
    out = [0] * n
    for i, v in zip(free, occ):
        out[i] = v
    for i, v in fixed.items():
        out[i] = v
    return out


def sim_table(c, M, ins):
    nu, k, fi, fo, hin, hout = layout(c)
    n = M.shape[0]
    fin = full(n, fi, ins, hin)
    return {o: ev.amplitude(M, fin, full(n, fo, o, hout)) for o in ev.fock_basis(len(fo), sum(ins))}


def sampler_dist(c, M, ins):
    """pattern on the circuit's modes (spec order users, ancillas) -> probability, marginalised over loss lines"""
    nu, k, fi, fo, hin, hout = layout(c)
    n = M.shape[0]
    d = nu + k
    fin = full(n, fi, ins, hin)
    N = sum(fin)
    out = {}
    for o in ev.fock_basis(n, N):
        p = abs(ev.amplitude(M, fin, o)) ** 2
        out[o[:d]] = out.get(o[:d], 0.0) + p
    return out


def ps_holds(ps, o):
    return all(sum(o[m] for m in modes) in counts for modes, counts in ps)


def with_heralds(c, o):
    nu, k, fi, fo, hin, hout = layout(c)
    return tuple(full(nu + k, fo, o, hout))


def analyzer_table(c, M, ins, ps, lossy):
    nu, k, fi, fo, hin, hout = layout(c)
    dist = sampler_dist(c, M, ins)
    n = sum(ins)
    outs = []
    for kk in (range(n + 1) if lossy else [n]):
        outs += ev.fock_basis(len(fo), kk)
    return {o: dist.get(with_heralds(c, o), 0.0) for o in outs if ps_holds(ps, o)}


def quick_table(c, M, ins, ps, pnr):
    nu, k, fi, fo, hin, hout = layout(c)
    n = M.shape[0]
    fin = full(n, fi, ins, hin)
    out = {}
    for o in ev.fock_basis(len(fo), sum(ins)):
        if ps_holds(ps, o) and (pnr or max(o, default=0) <= 1):
            out[o] = abs(ev.amplitude(M, fin, full(n, fo, o, hout))) ** 2
    return out
