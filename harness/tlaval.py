"""TLA+ values <-> Python.

parse(text): TLC-printed value -> Python (tuples for sequences, frozensets for sets,
dicts for records / functions, int, str, bool).
fmt(value): Python -> TLA+ literal text.
parse_dump(path): stream the states of a `tlc -dump` file as dicts var -> value.
"""
import re

TOK = re.compile(r'\s*(<<|>>|\[|\]|\{|\}|\(|\)|\|->|:>|@@|,|"(?:[^"\\]|\\.)*"|-?\d+|[A-Za-z_][A-Za-z0-9_]*)')


def tokenize(s):
    pos = 0
    out = []
    n = len(s)
    while True:
        m = TOK.match(s, pos)
        if not m:
            if s[pos:].strip() == "":
                return out
            raise ValueError("bad token at %r" % s[pos:pos + 40])
        out.append(m.group(1))
        pos = m.end()
        if pos >= n:
            return out


class _P:
    def __init__(self, toks):
        self.t = toks
        self.i = 0

    def peek(self):
        return self.t[self.i] if self.i < len(self.t) else None

    def eat(self, x=None):
        v = self.t[self.i]
        self.i += 1
        if x is not None and v != x:
            raise ValueError("expected %s got %s" % (x, v))
        return v

    def val(self):
        t = self.peek()
        if t == "<<":
            self.eat()
            out = []
            while self.peek() != ">>":
                out.append(self.val())
                if self.peek() == ",":
                    self.eat()
            self.eat(">>")
            return tuple(out)
        if t == "{":
            self.eat()
            out = []
            while self.peek() != "}":
                out.append(self.val())
                if self.peek() == ",":
                    self.eat()
            self.eat("}")
            return frozenset(out)
        if t == "[":
            self.eat()
            d = {}
            while self.peek() != "]":
                k = self.eat()
                self.eat("|->")
                d[k] = self.val()
                if self.peek() == ",":
                    self.eat()
            self.eat("]")
            return d
        if t == "(":
            self.eat()
            d = {}
            while self.peek() != ")":
                k = self.val()
                self.eat(":>")
                d[k] = self.val()
                if self.peek() == "@@":
                    self.eat()
            self.eat(")")
            return d
        self.eat()
        if t[0] == '"':
            return t[1:-1]
        if t == "TRUE":
            return True
        if t == "FALSE":
            return False
        if re.fullmatch(r"-?\d+", t):
            return int(t)
        return t


def parse(s):
    p = _P(tokenize(s))
    v = p.val()
    if p.i != len(p.t):
        raise ValueError("trailing tokens in TLA+ value")
    return v


def fmt(v):
    import numbers
    if isinstance(v, bool) or type(v).__name__ == "bool_":
        return "TRUE" if v else "FALSE"
    if isinstance(v, int):
        return str(v)
    if isinstance(v, numbers.Integral):          # numpy integers observed in the implementation (e.g. herald keys)
        return str(int(v))
    if isinstance(v, str):
        return '"' + v + '"'
    if isinstance(v, (tuple, list)):
        return "<<" + ",".join(fmt(x) for x in v) + ">>"
    if isinstance(v, (set, frozenset)):
        return "{" + ",".join(sorted(fmt(x) for x in v)) + "}"
    if isinstance(v, dict):
        if all(isinstance(k, str) for k in v) and v:
            return "[" + ",".join("%s |-> %s" % (k, fmt(x)) for k, x in v.items()) + "]"
        if not v:
            return "<<>>"
        return "(" + " @@ ".join("%s :> %s" % (fmt(k), fmt(x)) for k, x in v.items()) + ")"
    raise TypeError("cannot format %r" % (v,))


def parse_state_text(txt):
    parts = re.split(r'(?m)^/\\ ', txt)[1:]
    st = {}
    for p in parts:
        name, rest = p.split("=", 1)
        st[name.strip()] = parse(rest)
    return st


def iter_dump_text(path):
    """yield the raw text of each state in a TLC -dump file"""
    buf = []
    with open(path) as fh:
        for line in fh:
            if line.startswith("State "):
                if buf:
                    yield "".join(buf)
                buf = []
            elif line.strip():
                buf.append(line)
    if buf:
        yield "".join(buf)


def parse_dump(path):
    for txt in iter_dump_text(path):
        yield parse_state_text(txt)


def sim_states(path, last_only=True):
    """states of one `tlc -simulate file=...` behaviour file; by default only the final state"""
    with open(path) as fh:
        txt = fh.read()
    blocks = re.split(r'(?m)^STATE_\d+ == *\n', txt)[1:]
    if not blocks:
        return []
    out = []
    for b in (blocks[-1:] if last_only else blocks):
        b = re.split(r'(?m)^(?:\\\*|=====)', b)[0]
        out.append(parse_state_text(b))
    return out
