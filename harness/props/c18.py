"""C18 - State values behave as immutable Fock states; herald bookkeeping round-trips."""
from .. import tlc, replay_engine
from ..common import Check
from ..tlc import MachineryError

PID = "C18"


def run(tier):
    chk = Check(PID, tier)
    th = tier == "thorough"
    chk.rule = ("cases = reachable states of LwStates: operands a, b (same length), c, a herald set (<= MaxHer positions anywhere in the enlarged state, "
                "any photon numbers), a slice range; TLC checks the algebraic laws (round trip, associativity, commutativity, counts, slice laws) on "
                "every choice and records the result of every operation, which is compared with the real State / AnnotatedState / herald helpers "
                "(dictionary keys and herald positions in shuffled order). Plus immutability probes through every accessor, dB conversion round trips "
                "and seeded random matrices. non-trivial = a herald set is present; distinct = distinct operand tuples")
    consts = dict(MaxLen=3 if not th else 4, MaxOcc=2, MaxHer=2)
    wd = tlc.workdir("C18_states")
    tlc.copy_specs(wd, {"LwStates"})
    tlc.write_mc(wd, "MC", "LwStates", consts)
    tlc.write_cfg(wd, "MC", consts, invariants=["RoundTrip", "HeraldsInPlace", "AddAssoc", "MergeComm", "MergeCounts", "SliceLaw"])
    res = tlc.run(wd, "MC", dump=True, timeout=2400)
    tlc.require_clean_run(res, "C18")
    for v in res.violations:
        raise MachineryError("LwStates violates %s" % v["name"])
    chk.add_tlc("LwStates", res, "invariants RoundTrip HeraldsInPlace AddAssoc MergeComm MergeCounts SliceLaw")
    frac = min(1.0, (200000.0 if th else 30000.0) / max(1, res.distinct))
    n = 0
    for r in replay_engine.replay_dump(res.dump, "harness.adapters.states", "worker", {}, frac=frac, seed=chk.seed, keep=lambda t: "res = <<" not in t.replace("res = << >>", "")):
        n += 1
        chk.count(key=repr(r["case"]), nontrivial=len(r["case"][3]) > 0)
        if n % 4999 == 1:
            chk.sample({"a": r["case"][0], "b": r["case"][1], "c": r["case"][2], "heralds": r["case"][3], "slice": r["case"][4:]})
        for clause, detail in r["findings"]:
            chk.violation(clause, detail, script={"module": "LwStates", "case": r["case"]}, sig={"clause": clause})
    chk.traces_validated += n
    chk.add_phase("replay LwStates", cases=n, sampled_fraction=frac)
    tlc.cleanup("C18_states")
    from ..adapters import states as sa
    for clause, detail, sig in sa.immutability_probes():
        chk.violation(clause, detail, script={"probe": "immutability"}, sig=sig)
    for clause, detail, sig in sa.numeric_probes(chk.seed, 20000 if th else 4000):
        chk.violation(clause, detail, script={"probe": "numeric", "seed": chk.seed}, sig=sig)
    chk.add_phase("harness-only probes", immutability="every accessor of State and AnnotatedState", conversions=20000 if th else 4000)
    chk.assumptions = ["TLC 1.8 + CommunityModules", "integer occupations only (the property's domain)",
                       "dB conversion, random_unitary / random_permutation validity are judged by the harness (no state-machine content)"]
    return chk.finish()


def replay_file(path):
    return run("quick")
