"""C14 - Reck mapping reproduces any unitary; noise enters only through the error model."""
import math
import random

import numpy as np

from .. import tlc, replay_engine
from ..common import Check
from ..tlc import MachineryError

PID = "C14"


def run(tier):
    import lightworks as lw
    from lightworks import interferometers as itf
    from lightworks.interferometers import dists
    from ..adapters import reck as ra
    chk = Check(PID, tier)
    th = tier == "thorough"
    rng = random.Random(chk.seed)
    # ---- design sub-model: the nulling schedule executed exactly on every monomial matrix ----
    for n in ((2, 3, 4) if th else (2, 3)):
        wd = tlc.workdir("C14_n%d" % n)
        tlc.copy_specs(wd, {"LwRing", "LwMatrix", "LwReck"})
        consts = dict(N=n)
        tlc.write_mc(wd, "MC", "LwReck", consts)
        tlc.write_cfg(wd, "MC", consts, invariants=["Reconstructs"])
        res = tlc.run(wd, "MC", dump=True, timeout=3000)
        tlc.require_clean_run(res, "C14 n=%d" % n)
        for v in res.violations:
            raise MachineryError("LwReck n=%d violates %s" % (n, v["name"]))
        chk.add_tlc("LwReck: all monomial %dx%d matrices" % (n, n), res, "invariant Reconstructs (schedule nulls, mapped circuit = matrix)")
        cnt = 0
        frac = 1.0 if n < 4 else 0.3
        for r in replay_engine.replay_dump(res.dump, "harness.adapters.reck", "worker", {}, frac=frac, seed=chk.seed, keep=lambda t: "done = TRUE" in t):
            if r is None:
                continue
            cnt += 1
            chk.count(key="mono" + repr(r["case"]))
            if cnt % 300 == 1:
                chk.sample({"monomial matrix": r["case"]})
            if r["drift"]:
                chk.drift.append(r["drift"])
            for clause, detail in r["findings"]:
                chk.violation(clause, detail, script={"module": "LwReck", "matrix": r["case"]}, sig={"clause": clause, "family": "monomial"})
        chk.traces_validated += cnt
        chk.add_phase("replay monomial %dx%d into Reck().map" % (n, n), cases=cnt)
        tlc.cleanup("C14_n%d" % n)
    # ---- contract on arbitrary unitaries (harness + evaluator-free: the mapped circuit's own U is compared) ----
    for what, M in ra.special_unitaries(rng, 60 if th else 12, 12):
        c = lw.Unitary(M)
        chk.count(key=what)
        fam = what.split()[0]
        try:
            mapped = itf.Reck().map(c)
        except Exception as e:  # noqa: BLE001
            chk.violation("raised", "Reck.map of %s raised %s: %s" % (what, type(e).__name__, e), script={"unitary": what, "matrix": [[repr(complex(x)) for x in row] for row in M]},
                          sig={"clause": "raised", "family": fam})
            continue
        for clause, detail in ra.check_mapping(c, mapped, what):
            chk.violation(clause, detail, script={"unitary": what, "matrix": [[repr(complex(x)) for x in row] for row in M]}, sig={"clause": clause, "family": fam})
    # heralded circuits (heralds must be kept; the argument must not change)
    from lightworks import qubit
    for name, c in (("CNOT_Heralded", qubit.CNOT_Heralded()), ("herald in!=out", None), ("crossing heralds", "x"), ("zero-valued loss elements", "z")):
        if c is None:
            c = lw.Circuit(4)
            c.bs(0, 1); c.bs(2, 3); c.ps(1, 0.4); c.bs(1, 2); c.herald(1, 0, 3); c.herald(0, 2)
        elif c == "z":
            # lossless, but the component list holds loss elements of value zero (U_full is larger than U)
            c = lw.Circuit(4)
            c.bs(0, 1); c.loss(2, 0); c.bs(2, 3, loss=lw.Parameter(0.0)); c.ps(1, 0.4); c.bs(1, 2); c.loss(0, lw.Parameter(0)); c.herald(0, 3, 1)
        elif c == "x":
            c = lw.Circuit(5)
            c.bs(0, 1); c.bs(2, 3); c.ps(1, 0.4); c.bs(1, 2); c.bs(3, 4); c.herald(1, 0, 3); c.herald(0, 2, 1); c.herald(2, 4, 0)
        before = (c.n_modes, c.heralds, c.U_full.copy())
        chk.count(key=name)
        try:
            mapped = itf.Reck().map(c)
        except Exception as e:  # noqa: BLE001
            chk.violation("raised", "Reck.map of the heralded circuit %s raised %s: %s" % (name, type(e).__name__, e), script={"circuit": name}, sig={"clause": "raised", "family": "heralded"})
            continue
        if (c.n_modes, c.heralds) != before[:2] or np.abs(c.U_full - before[2]).max() > 0:
            chk.violation("argument_changed", "Reck.map changed %s" % name, script={"circuit": name}, sig={"clause": "argument_changed"})
        fs = ra.check_mapping(c, mapped, name)
        for clause, detail in fs:
            chk.violation(clause, detail, script={"circuit": name}, sig={"clause": clause, "family": "heralded"})
    # ---- error models: every drawn value within its declared bounds, same seed same circuit, still a (sub-)unitary ----
    nem = 40 if th else 10
    for k in range(nem):
        em = itf.ErrorModel()
        lo, hi = sorted((rng.uniform(0.3, 0.5), rng.uniform(0.5, 0.7)))
        em.bs_reflectivity = rng.choice([dists.TopHat(lo, hi), dists.Gaussian(0.5, 0.05, min_value=lo, max_value=hi), dists.Constant(0.5),
                                         dists.Gaussian(0.5, 0.08, max_value=hi), dists.Gaussian(0.5, 0.08, min_value=lo)])
        one_sided = (em.bs_reflectivity._min_value == -np.inf, em.bs_reflectivity._max_value == np.inf) if isinstance(em.bs_reflectivity, dists.Gaussian) else (False, False)
        lmax = rng.uniform(0.05, 0.3)
        em.loss = rng.choice([dists.TopHat(0, lmax), dists.Gaussian(lmax / 2, 0.1, min_value=0, max_value=lmax), dists.Constant(0.0),
                              dists.Gaussian(0.03, 0.04, min_value=0)])
        loss_one_sided = isinstance(em.loss, dists.Gaussian) and em.loss._max_value == np.inf
        pmax = rng.uniform(0.01, 0.2)
        em.phase_offset = rng.choice([dists.TopHat(-pmax, pmax), dists.Gaussian(0, 0.1, min_value=-pmax, max_value=pmax), dists.Constant(0.0)])
        n = rng.randint(2, 6)
        c = lw.Unitary(lw.random_unitary(n, seed=rng.randint(0, 10 ** 6)))
        sd = (0, 1, 2 ** 32 - 1)[k] if k < 3 else rng.randint(0, 10 ** 6)      # ends of the seed range first ("all seeds": 0 is a seed)
        chk.count(key="em%d" % k)
        script = {"error_model": str(em), "n": n, "seed": sd}
        try:
            m1 = itf.Reck(em).map(c, seed=sd)
            m2 = itf.Reck(em).map(c, seed=sd)
        except Exception as e:  # noqa: BLE001
            chk.violation("raised", "Reck.map with error model raised %s: %s (a drawn value outside its declared bounds?)" % (type(e).__name__, e), script,
                          sig={"clause": "raised", "family": "error_model"})
            continue
        ok, detail, phases, refl, losses = ra.structure(m1)
        if not ok:
            chk.violation("structure", detail, script, sig={"clause": "structure", "family": "error_model"})
        rlo = -np.inf if one_sided[0] else lo
        rhi = np.inf if one_sided[1] else hi
        if any(not (rlo - 1e-12 <= r <= rhi + 1e-12) for r in refl) and not isinstance(em.bs_reflectivity, dists.Constant):
            chk.violation("bounds", "a drawn reflectivity %s lies outside [%g, %g]" % ([r for r in refl if not rlo <= r <= rhi][:1], rlo, rhi), script, sig={"clause": "bounds"})
        lhi = np.inf if loss_one_sided else lmax
        if any(not (-1e-12 <= x <= lhi + 1e-12) for x in losses):
            chk.violation("bounds", "a drawn loss lies outside [0, %g]" % lhi, script, sig={"clause": "bounds"})
        if np.abs(m1.U_full - m2.U_full).max() > 0 if m1.U_full.shape == m2.U_full.shape else True:
            chk.violation("seed", "the same seed gave two different mapped circuits", script, sig={"clause": "seed"})
        sv = np.linalg.svd(m1.U, compute_uv=False)
        if sv.max() > 1 + 1e-9:
            chk.violation("subunitary", "mapped circuit has a singular value %.12f > 1" % sv.max(), script, sig={"clause": "subunitary"})
        if any(not (0 <= p < ra.TWO_PI) for p in phases):
            chk.violation("phase_range", "programmed phase outside [0, 2 pi) with error model", script, sig={"clause": "phase_range", "family": "error_model"})
    # ---- histories on long-lived objects: an ErrorModel whose distributions are re-assigned after it has been used, and Reck objects
    # created with the default model after ANOTHER default-constructed Reck had its error model edited in place
    def fresh_model(cfg):
        m = itf.ErrorModel()
        for attr, mk in cfg.items():
            setattr(m, attr, mk())
        return m
    # (bounds at half a standard deviation: most draws are rejected and re-drawn)
    makers = {"bs_reflectivity": [lambda: dists.TopHat(0.4, 0.6), lambda: dists.Gaussian(0.5, 0.05, min_value=0.35, max_value=0.65), lambda: dists.Constant(0.5),
                                  lambda: dists.Gaussian(0.5, 0.1, min_value=0.45, max_value=0.55)],
              "loss": [lambda: dists.TopHat(0, 0.2), lambda: dists.Gaussian(0.1, 0.05, min_value=0, max_value=0.2), lambda: dists.Constant(0.0),
                       lambda: dists.Gaussian(0.1, 0.2, min_value=0.05, max_value=0.15)],
              "phase_offset": [lambda: dists.TopHat(-0.1, 0.1), lambda: dists.Gaussian(0, 0.1, min_value=-0.2, max_value=0.2), lambda: dists.Constant(0.0)]}
    for h in range(6 if th else 3):
        c = lw.Unitary(lw.random_unitary(4, seed=1000 + h))
        cfg = {a: rng.choice(makers[a]) for a in makers}
        em = fresh_model(cfg)
        hist = [("init", {a: type(getattr(em, a)).__name__ for a in makers})]
        itf.Reck(em).map(c, seed=5)                                  # the model has been used (and seeded) once
        for step in range(5):
            attr = rng.choice(list(makers))
            cfg[attr] = rng.choice(makers[attr])
            setattr(em, attr, cfg[attr]())
            hist.append((attr, type(getattr(em, attr)).__name__))
            sd = 0 if step == 0 else rng.randint(0, 10 ** 6)
            chk.count(key="emhist%d/%d" % (h, step))
            script = {"history": hist, "seed": sd}
            try:
                m1 = itf.Reck(em).map(c, seed=sd)
                m2 = itf.Reck(em).map(c, seed=sd)
                m3 = itf.Reck(fresh_model(cfg)).map(c, seed=sd)
            except Exception as e:  # noqa: BLE001
                chk.violation("raised", "Reck.map with a re-configured error model raised %s: %s" % (type(e).__name__, e), script, sig={"clause": "raised", "family": "error_model_history"})
                break
            if m1.U_full.shape != m2.U_full.shape or np.abs(m1.U_full - m2.U_full).max() > 0:
                chk.violation("seed", "after re-assigning %s the same seed gave two different mapped circuits" % attr, script, sig={"clause": "seed", "family": "history"})
                break
            if m1.U_full.shape != m3.U_full.shape or np.abs(m1.U_full - m3.U_full).max() > 0:
                chk.violation("seed", "after re-assigning %s the mapped circuit differs from the one of a fresh, identically configured model with the same seed" % attr,
                              script, sig={"clause": "seed", "family": "history"})
                break
    # ONE Reck object mapping two circuits that differ by a parameter step of 2e-7 (and then by an ordinary step)
    for n in (3, 4):
        par = lw.Parameter(0.4)
        c = lw.Circuit(n)
        for i in range(n - 1):
            c.bs(i, i + 1, reflectivity=0.3 + 0.1 * i)
        c.ps(1, par)
        for i in range(n - 1):
            c.bs(i, i + 1)
        mapper = itf.Reck()
        mapper.map(c)
        for step in (2e-7, 0.5):
            par.set(par.get() + step)
            chk.count(key="reuse-reck%d/%g" % (n, step))
            m = mapper.map(c)
            dev = np.abs(m.U_full - c.U_full).max() if m.U_full.shape == c.U_full.shape else float("inf")
            if dev > 1e-10:
                chk.violation("unitary", "the second map() of the same Reck object, after a parameter step of %g, reproduces the unitary only to %.3g" % (step, dev),
                              {"history": "Reck().map(c); parameter += %g; map(c) again" % step, "n": n}, sig={"clause": "unitary", "family": "reused_reck"})
    noisy = itf.Reck()
    noisy.error_model.loss = dists.TopHat(0.05, 0.2)
    noisy.error_model.bs_reflectivity = dists.TopHat(0.4, 0.6)
    noisy.map(lw.Unitary(lw.random_unitary(3, seed=1)), seed=2)
    for n in (2, 3, 5):
        c = lw.Unitary(lw.random_unitary(n, seed=77 + n))
        chk.count(key="default-after-noisy%d" % n)
        m = itf.Reck().map(c)
        if m.U_full.shape != c.U_full.shape or np.abs(m.U_full - c.U_full).max() > 1e-10:
            chk.violation("unitary", "Reck() with the default error model no longer reproduces the unitary after ANOTHER Reck() had its error model edited in place "
                          "(deviation %.3g)" % (np.abs(m.U[:n, :n] - c.U).max()), {"history": "Reck().error_model edited in place, then a new Reck()", "n": n},
                          sig={"clause": "unitary", "family": "shared_default"})
    chk.traces_validated = chk.evaluations
    chk.add_phase("contract on arbitrary unitaries and error models", error_models=nem)
    chk.add_phase("histories: re-assigned distributions on a used ErrorModel; default Reck() after another one was edited in place")
    chk.rule = ("cases = (a) every monomial matrix (entries 0 or a 4th root of unity) of size 2, 3 (4 in the thorough tier): TLC executes the nulling schedule and "
                "the mapped unit cells exactly and the same matrix is mapped by the real Reck; (b) identity, all permutations up to 4 modes, DFT, block "
                "diagonal, near-degenerate (entries 1e-6 .. 1e-21 around the 1e-20 branch threshold), Haar random up to 12 modes, heralded circuits; "
                "(c) random error models (TopHat / Gaussian with bounds / Constant). distinct = distinct matrices / models, all non-trivial")
    chk.assumptions = ["TLC 1.8 + CommunityModules", "for generic (non-ring) unitaries the contract is judged numerically on the mapped circuit's own U (1e-8)",
                       "bounds of drawn values are read back from the mapped circuit's components"]
    return chk.finish()


def replay_file(path):
    return run("quick")
