"""C13 - the qubit gate library implements the gates it names."""
import itertools
import math
import random

import numpy as np

from .. import tlc, trace_engine
from ..common import Check
from ..tlc import MachineryError

PID = "C13"


def cases():
    from lightworks import qubit as q
    out = []
    Q1 = [(0, 1)]
    for name in ("I", "H", "X", "Y", "Z", "S", "Sadj", "T", "Tadj", "SX"):
        out.append((name, 0, lambda n=name: getattr(q, n)(), Q1, False))
    for k in range(8):
        for name in ("Rx", "Ry", "Rz"):
            out.append((name, k, lambda n=name, k=k: getattr(q, n)(k * math.pi / 2), Q1, False))
        out.append(("P", k, lambda k=k: q.P(k * math.pi / 4), Q1, False))
    Q2 = [(0, 1), (2, 3)]
    out.append(("CZ", 0, lambda: q.CZ(), Q2, True))
    out.append(("CZ_Heralded", 0, lambda: q.CZ_Heralded(), Q2, False))
    for t in (0, 1):
        out.append(("CNOT", t, lambda t=t: q.CNOT(t), Q2, True))
        out.append(("CNOT_Heralded", t, lambda t=t: q.CNOT_Heralded(t), Q2, False))
    Q3 = [(0, 1), (2, 3), (4, 5)]
    out.append(("CCZ", 0, lambda: q.CCZ(), Q3, True))
    for t in (0, 1, 2):
        out.append(("CCNOT", t, lambda t=t: q.CCNOT(t), Q3, True))
    # SWAP between every pair of disjoint mode pairs on <= 6 modes (a sample of the orderings)
    pairs = [(a, b) for a in range(6) for b in range(6) if a != b]
    for qa in pairs:
        for qb in pairs:
            if set(qa) & set(qb):
                continue
            out.append(("SWAP", 0, lambda qa=qa, qb=qb: q.SWAP(qa, qb), [qa, qb], False, (qa, qb)))
    return out


def run(tier):
    from ..adapters import gates as ga
    from lightworks import qubit as q8
    chk = Check(PID, tier)
    th = tier == "thorough"
    rng = random.Random(chk.seed)
    allc = cases()
    swaps = [c for c in allc if c[0] == "SWAP"]
    rest = [c for c in allc if c[0] != "SWAP"]
    wide = [("SWAP", 0, (lambda qa=qa, qb=qb: q8.SWAP(qa, qb)), [qa, qb], False, (qa, qb))
            for qa, qb in (((0, 4), (2, 6)), ((0, 5), (2, 7)), ((1, 4), (3, 6)), ((4, 1), (6, 3)), ((7, 0), (3, 5)), ((0, 7), (1, 6)), ((2, 6), (0, 4)))]
    if not th:
        swaps = rng.sample(swaps, 150)
    swaps = swaps + wide
    recs = []
    meta = []
    for c in rest + swaps:
        name, opt, build, qm, ps = c[:5]
        circ = build()
        before = (circ.n_modes, circ.heralds, circ.U_full.copy())
        G, leak = ga.characterise(circ, qm, ps)
        rec, s2 = ga.record(name, opt, G, leak)
        recs.append(rec)
        meta.append((name, opt, c[5] if len(c) > 5 else None, s2, leak))
        chk.count(key=repr((name, opt, c[5] if len(c) > 5 else None)), nontrivial=name not in ("I",))
        after = (circ.n_modes, circ.heralds, circ.U_full)
        if before[0] != after[0] or before[1] != after[1] or np.abs(before[2] - after[2]).max() > 0:
            chk.violation("gate_changed", "simulating %s changed the gate circuit" % name, {"gate": name, "opt": opt}, sig={"clause": "gate_changed"})
    out = trace_engine.validate("C13_gates", "LwGatesTrace", recs, {"LwRing", "LwMatrix", "LwGates"}, invariants=("Ok", "Accepted"))
    chk.add_tlc("LwGatesTrace: characterisation records vs the table of LwGates (ASSUMEs: CNOT = H.CZ.H, CCNOT = H.CCZ.H, gate algebra)", out["res"])
    for tid, (li, clauses) in sorted(out["bad"].items()):
        name, opt, extra, s2, leak = meta[tid - 1]
        for cl in clauses:
            chk.violation(cl, "%s(option %s%s): %s does not match the named gate (|scalar|^2 = %.6g, leak %.3g)" % (name, opt, (" modes %s" % (extra,)) if extra else "", cl, s2, leak),
                          script={"module": "LwGatesTrace", "gate": name, "opt": opt, "modes": extra}, sig={"clause": cl, "gate": name})
    chk.traces_validated += len(recs)
    chk.sample({"record": {k: (v if k != "block" else "...") for k, v in recs[12].items()}})
    # generic rotation angles: closed form of the same definitions (calibrated on the ring angles TLC judged)
    from lightworks import qubit as q
    cal = 0.0
    for k in range(8):
        for name in ("Rx", "Ry", "Rz"):
            G, _ = ga.characterise(getattr(q, name)(k * math.pi / 2), [(0, 1)], False)
            if not ga.equal_up_to_phase(G, ga.rot(name, k * math.pi / 2)):
                cal = 1.0
    if cal:
        # the closed form disagrees with the implementation on angles TLC accepted -> the closed form is wrong (machinery), unless TLC rejected them too
        if not out["bad"]:
            raise MachineryError("rotation closed form disagrees with records TLC accepted")
    n = 200 if th else 40
    special = [0.0, 1e-9, -1e-9, 2 * math.pi, -2 * math.pi, 4 * math.pi, math.pi, -math.pi, 3, -1, 1e-4, 2 * math.pi - 1e-9, 100.5, np.float64(0.75), np.int64(2)]
    angles = [(nm, a_) for a_ in special for nm in ("Rx", "Ry", "Rz", "P")] + [(rng.choice(["Rx", "Ry", "Rz", "P"]), rng.uniform(-2 * math.pi, 4 * math.pi)) for _ in range(n)]
    for name, th_ in angles:
        G, leak = ga.characterise(getattr(q, name)(th_), [(0, 1)], False)
        chk.count(key="%s(%r)" % (name, th_))
        if not ga.equal_up_to_phase(G, ga.rot(name, th_)):
            chk.violation("matrix", "%s(%.6f) is not the named rotation" % (name, th_), script={"gate": name, "theta": th_}, sig={"clause": "matrix", "gate": name})
    chk.add_phase("generic rotation angles (closed form)", angles=n)
    tlc.cleanup("C13_gates")
    chk.rule = ("cases = every gate of the library x every target option x rotation angles k*pi/2 (phase gate k*pi/4) x SWAP between disjoint mode pairs on <= 6 "
                "modes: the logical block is extracted from the real gate's heralded amplitudes on all dual-rail basis inputs (one photon per qubit at the "
                "output for post-selected gates), normalised by the common scalar, quantised to the ring and judged by TLC against the table (matrix "
                "up to a global phase, |scalar|^2 = 1, 1/9, 1/16, 1/72, no leak for heralded gates); generic angles by closed form. distinct = distinct "
                "(gate, option, modes); non-trivial = not the identity gate")
    chk.assumptions = ["TLC 1.8 + CommunityModules", "the hard-coded CZ / CZ_Heralded / CCZ optics contain 1/sqrt3, 2^(-1/4), sqrt(7/8): they are not transcribed; "
                       "their logical action is extracted by the harness and judged against the table", "global phase is free (the property's 'one common scalar')"]
    return chk.finish()


def replay_file(path):
    return run("quick")
