"""C08 - operations never modify their arguments; failed calls change nothing (circuit part; the emulator, interferometer,
tomography and display frames are added by the sections of this module as those adapters exist)."""
from ..common import Check
from . import circuit_common as cc

PID = "C08"
MINE = {"arg_mutated", "reject_changed_state", "frame", "rewrite_changed_other"}
PAIRS = {(1, 2), (1, 3), (2, 3)}


def config(name):
    base = dict(Scenario="tmpl", NObj=3, Targets={1, 2, 3}, HeraldNs={0, 1})
    if name == "reuse_rejects":      # the same sub-circuit added several times, edited afterwards; every invalid call on parents WITH ancillas
        base["HeraldNs"] = {1}
        return cc.consts_of(**base, PNu=3, Numeric=False, MaxLen=5, MaxRej=1, MaxAnc=4, AddPairs=PAIRS, TmplLoss=False, MaxHer=(0, 1, 1), MaxAdds=2,
                            Kinds={"herald", "add", "edit", "bs", "loss", "swap"}, Ordered=True, BadModes={-1, 99, 91}, Rids={1}, Convs={"H"},
                            Lqs={0, 1}, LossQs={1}, BadVals=True, SwapLevel=3, MaxComp=1)
    if name == "reuse_rejects_big":  # thorough: both herald numbers, three additions
        return cc.consts_of(**base, PNu=3, Numeric=False, MaxLen=5, MaxRej=1, MaxAnc=4, AddPairs=PAIRS, TmplLoss=False, MaxHer=(0, 1, 1), MaxAdds=3,
                            Kinds={"herald", "add", "edit", "bs", "loss", "swap"}, Ordered=True, BadModes={-1, 99, 91}, Rids={1}, Convs={"H"},
                            Lqs={0, 1}, LossQs={1}, BadVals=True, SwapLevel=3, MaxComp=1)
    if name == "reuse_numeric":      # TLC carries sem: a later edit of a sub-circuit must leave sem[parent] untouched
        return cc.consts_of(**base, PNu=3, Numeric=True, MaxLen=4, MaxRej=1, MaxAnc=3, AddPairs={(1, 2), (1, 3)}, TmplLoss=True, MaxHer=(0, 1, 0),
                            MaxAdds=2, Kinds={"herald", "add", "edit", "probeall"}, Ordered=True, BadModes={99})
    if name == "single_rejects":     # every invalid-argument class on a plain circuit
        return cc.consts_of(NUs={2, 3}, Numeric=False, MaxLen=3, MaxRej=2, Kinds={"bs", "ps", "loss", "bar", "swap", "u", "herald"},
                            BadModes={-1, 99, 90, 91}, Rids={1}, Convs={"Rx"}, Lqs={0, 1}, Pids={1}, LossQs={1}, BadVals=True, SwapLevel=3,
                            UIds={"H", "C3"}, HeraldNs={0, 1})
    raise KeyError(name)


PROPS = ["FrameProp", "RejectFrame"]


def has_reject_or_reuse(r):
    prog = r["prog"]
    if any(e[0] == "rej" for e in prog):
        return True
    subs = [e[3] for e in prog if e[1] == "add"]
    return len(subs) != len(set(subs)) or any(e[1] == "edit" for e in prog)


def run(tier):
    chk = Check(PID, tier)
    chk.rule = ("cases = programs with object reuse (same sub-circuit added several times / to several parents / edited afterwards) and "
                "rejected calls of every invalid-argument class, on parents with and without ancillas; after EVERY call the observable "
                "state (n_modes, input_modes, heralds, U_full) of EVERY live object other than the call's target is compared with its "
                "state before the call, and after a raising call that of every object. non-trivial = contains a rejected call, a reused "
                "or a later-edited sub-circuit; distinct = distinct call sequences")
    th = tier == "thorough"
    c = config("reuse_rejects_big" if th else "reuse_rejects")
    cc.model_check(chk, PID, "reuse_rejects", c, ["InputModesInv"], PROPS + ["AncillaPrivate"], 3000, dump=False)
    cc.tlc.cleanup(PID + "_reuse_rejects")
    cc.sim_phase(chk, PID, "reuse_rejects", c, MINE, 16000 if th else 2400, 8, {"scenario": "tmpl", "numeric": False, "pnu": 3, "tmpl_loss": False},
                 nontrivial_fn=has_reject_or_reuse)
    cc.dump_phase(chk, PID, "reuse_numeric", config("reuse_numeric"), ["InputModesInv"], PROPS + ["UnitaryStep"], MINE, 1.0 if th else 0.3, 1200,
                  {"scenario": "tmpl", "numeric": True, "pnu": 3, "tmpl_loss": True}, nontrivial_fn=has_reject_or_reuse)
    cc.dump_phase(chk, PID, "single_rejects", config("single_rejects"), ["InputModesInv"], PROPS, MINE, 1.0 if th else 0.25, 1200,
                  {"scenario": "single", "numeric": False}, keep=lambda t: '"rej"' in t, nontrivial_fn=has_reject_or_reuse)
    cc.script_phase(chk, PID, "findings", cc.load_corpus(PID), MINE)
    cc.repo_tests_phase(chk, PID, MINE, ["tests/qubit", "tests/interferometers"] + (["tests/sdk", "tests/tomography", "tests/emulator/simulator_test.py"] if th else []))
    for prof in ("wiring", "rewrites"):
        cc.trace_phase(chk, PID, prof + "_ring", 2000 if th else 320, prof, MINE, numeric=True)
    chk.assumptions = ["TLC 1.8 + CommunityModules", "observable state = (n_modes, input_modes, heralds, U_full to 1e-9); shared Parameter objects are excepted by the property",
                       "frames of emulator / interferometer / tomography / display calls are checked by the checks of C03-C07, C14-C16, C19 on their own runs"]
    return chk.finish()


def replay_file(path):
    return cc.replay_file(PID, path, MINE)
