"""C08 - operations never modify their arguments; failed calls change nothing (circuit part; the emulator, interferometer,
tomography and display frames are added by the sections of this module as those adapters exist)."""
from ..common import Check
from . import circuit_common as cc

PID = "C08"
MINE = {"arg_mutated", "reject_changed_state", "frame", "rewrite_changed_other", "read_changed_state"}
PAIRS = {(1, 2), (1, 3), (2, 3)}


def config(name):
    base = dict(Scenario="tmpl", HeraldNs={0, 1})
    if name == "reuse_rejects":      # the same sub-circuit added several times, edited afterwards; every invalid call on parents WITH ancillas
        base["HeraldNs"] = {1}
        return cc.consts_of(**base, NObj=3, Targets={1, 2, 3}, PNu=3, Numeric=False, MaxLen=5, MaxRej=1, MaxAnc=4, AddPairs=PAIRS, TmplLoss=False, MaxHer=(0, 1, 1), MaxAdds=2,
                            Kinds={"herald", "add", "edit", "bs", "loss", "swap"}, Ordered=True, BadModes={-1, 99, 91}, Rids={1}, Convs={"H"},
                            Lqs={0, 1}, LossQs={1}, BadVals=True, SwapLevel=3, MaxComp=1)
    if name == "reuse_rejects_big":  # thorough: both herald numbers, three additions
        return cc.consts_of(**base, NObj=3, Targets={1, 2, 3}, PNu=3, Numeric=False, MaxLen=5, MaxRej=1, MaxAnc=4, AddPairs=PAIRS, TmplLoss=False, MaxHer=(0, 1, 1), MaxAdds=3,
                            Kinds={"herald", "add", "edit", "bs", "loss", "swap"}, Ordered=True, BadModes={-1, 99, 91}, Rids={1}, Convs={"H"},
                            Lqs={0, 1}, LossQs={1}, BadVals=True, SwapLevel=3, MaxComp=1)
    if name == "reuse_numeric":      # TLC carries sem: a later edit of a sub-circuit must leave sem[parent] untouched
        return cc.consts_of(**base, NObj=3, Targets={1, 2, 3}, PNu=3, Numeric=True, MaxLen=4, MaxRej=1, MaxAnc=3, AddPairs={(1, 2), (1, 3)}, TmplLoss=True, MaxHer=(0, 1, 0),
                            MaxAdds=2, Kinds={"herald", "add", "edit", "probeall"}, Ordered=True, BadModes={99})
    if name == "copies_tmpl":        # copies of parents that already own ancillas; heralded additions to the copy, then edits of the ORIGINAL (and vice versa)
        return cc.consts_of(**base, NObj=4, Targets={1, 2, 3, 4}, PNu=3, Numeric=False, MaxLen=7, MaxRej=0, MaxAnc=4, AddPairs={(1, 2), (1, 3), (4, 2), (4, 3)},
                            TmplLoss=False, MaxHer=(0, 1, 1, 0), MaxAdds=3, Kinds={"herald", "add", "copy", "probeall", "bs"}, Ordered=False, Rids={1}, Convs={"H"},
                            Lqs={0}, MaxComp=2)
    if name == "copies_pair":        # a + b with an empty left operand, copies, then edits of either side
        return cc.consts_of(Scenario="pair", NObj=4, Targets={1, 2, 3, 4}, PNu=2, Numeric=False, MaxLen=6, MaxRej=0, Kinds={"bs", "ps", "plus", "copy", "loss"},
                            Rids={1}, Convs={"Rx", "H"}, Lqs={0}, Pids={1, 3}, LossQs={1})
    if name == "single_rejects":     # every invalid-argument class on a plain circuit
        return cc.consts_of(NUs={2, 3}, Numeric=False, MaxLen=3, MaxRej=2, Kinds={"bs", "ps", "loss", "bar", "swap", "u", "herald"},
                            BadModes={-1, 99, 90, 91}, Rids={1}, Convs={"Rx"}, Lqs={0, 1}, Pids={1}, LossQs={1}, BadVals=True, SwapLevel=3,
                            UIds={"H", "C3"}, HeraldNs={0, 1})
    raise KeyError(name)


PROPS = ["FrameProp", "RejectFrame"]


def has_reject_or_reuse(r):
    prog = r["prog"]
    if any(e[0] == "rej" for e in prog):
        return True
    subs = [e[3] for e in prog if e[1] == "add"]
    return len(subs) != len(set(subs)) or any(e[1] == "edit" for e in prog)


def other_operations(chk, th):
    """the operations of the property that are not construction calls: simulate / sample / analyse / map / display / tomography /
    a + b / copy: every circuit and State passed in is snapshotted before and compared after"""
    import random
    import numpy as np
    import lightworks as lw
    from lightworks import emulator as emu, interferometers as itf, qubit, tomography as tm
    from ..adapters import circuit as ad
    from ..adapters import tomo as ta
    from ..common import library_raised
    rng = random.Random(chk.seed)

    def circuits():
        out = {}
        c = lw.Circuit(4); c.bs(0, 1); c.ps(1, 0.3); c.bs(2, 3, reflectivity=0.4); c.bs(1, 2); c.loss(0, 0.2); c.herald(1, 3, 2)
        out["lossy herald in!=out"] = c
        p = lw.Circuit(5); p.bs(0, 1); p.add(qubit.CNOT_Heralded(), 1); p.ps(0, 0.7)
        out["parent with heralded CNOT"] = p
        g = lw.Circuit(3); g.bs(0, 2, convention="H"); g.mode_swaps({0: 1, 1: 2, 2: 0}); g.barrier([0, 2]); g.add(lw.Unitary(lw.random_unitary(2, seed=3)), 1, group=True)
        out["groups swaps barrier"] = g
        rv = lw.Circuit(4); rv.bs(3, 1, convention="H"); rv.bs(2, 0, reflectivity=0.3); rv.ps(3, 0.2); rv.bs(1, 0, convention="H", reflectivity=0.8)
        out["beam splitters given high mode first"] = rv
        # circuits whose component list is exactly ONE group (what add() produces), with a herald of their own on different in / out modes
        inner = lw.Circuit(3); inner.bs(0, 1); inner.ps(1, 0.6); inner.bs(1, 2, convention="H")
        sg = lw.Circuit(3); sg.add(inner, 0, group=True); sg.herald(1, 0, 2)
        out["single group, own herald in!=out"] = sg
        sg2 = lw.Circuit(4); sg2.add(qubit.CZ_Heralded(), 0)
        out["single heralded gate"] = sg2
        out["gate object CNOT"] = qubit.CNOT()                  # library gate objects kept by the caller and placed several times
        out["gate object CNOT_Heralded"] = qubit.CNOT_Heralded()
        out["gate object SWAP"] = qubit.SWAP((0, 1), (2, 3))
        return out

    def guarded(what, objs, states, fn):
        before = {k: ad.snapshot(v) for k, v in objs.items()}
        sb = [(st, st.s) for st in states]
        chk.count(key="other:" + what)
        try:
            fn()
        except Exception as e:  # noqa: BLE001
            if not library_raised(e):
                raise
        for k, v in objs.items():
            if ad.snapshot(v) != before[k]:
                chk.violation("arg_mutated", "%s changed the circuit '%s' passed in" % (what, k), script={"operation": what, "circuit": k}, sig={"clause": "arg_mutated", "operation": what.split()[0]})
        for st, orig in sb:
            if st.s != orig:
                chk.violation("arg_mutated", "%s changed a State passed in: %s -> %s" % (what, orig, st.s), script={"operation": what}, sig={"clause": "arg_mutated", "operation": what.split()[0]})

    for name, c in circuits().items():
        nin = c.input_modes
        ins = lw.State([1] + [0] * (nin - 1)) if nin else lw.State([])
        ins2 = lw.State(([1, 1] + [0] * nin)[:nin])
        guarded("Simulator.simulate on " + name, {name: c}, [ins, ins2], lambda: emu.Simulator(c).simulate([ins, ins2] if ins.n_photons == ins2.n_photons else [ins]))
        for b in ("permanent", "slos"):
            def samp():
                s_ = emu.Sampler(c, ins2, backend=b, source=emu.Source(brightness=0.8, purity=0.95, indistinguishability=0.9), detector=emu.Detector(efficiency=0.9, p_dark=0.01))
                s_.probability_distribution
                s_.sample_N_inputs(200, seed=1)
                s_.sample()
            guarded("Sampler(%s) distribution + sampling on %s" % (b, name), {name: c}, [ins2], samp)
        guarded("Sampler.sample_N_outputs on " + name, {name: c}, [ins2], lambda: emu.Sampler(c, ins2).sample_N_outputs(100, seed=2, min_detection=1))

        def quick():
            q_ = emu.QuickSampler(c, ins2, photon_counting=False)
            q_.probability_distribution
            q_.sample_N_outputs(50, seed=3)
            q_.sample()
        guarded("QuickSampler on " + name, {name: c}, [ins2], quick)
        guarded("Analyzer.analyze on " + name, {name: c}, [ins, ins2], lambda: emu.Analyzer(c).analyze(ins2, expected={ins2: ins2}))
        for dt in ("svg", "mpl"):
            def disp():
                import matplotlib.pyplot as plt
                try:
                    lw.Display(c, display_type=dt, display_loss=True, show_parameter_values=True)
                finally:
                    plt.close("all")
            guarded("Display(%s) of %s" % (dt, name), {name: c}, [], disp)
        # a + b and copy: editing the result must not change the operands, and vice versa
        if not c.heralds["input"]:
            d = lw.Circuit(c.n_modes); d.bs(0, 1); d.ps(0, 1.1)
            tot = [None]

            def plus_then_edit():
                tot[0] = c + d
                tot[0].ps(0, 0.5); tot[0].compress_mode_swaps(); tot[0].remove_non_adjacent_bs(); tot[0].unpack_groups()
            guarded("a + b then edits of the sum, " + name, {name: c, "d": d}, [], plus_then_edit)

            def iadd_through_alias():
                # `t += d` on a name that aliases c: the name is rebound to the sum, c itself (still held by the caller) is not an
                # operation target and must stay as it was; the same for d
                t = c
                t += d
                t += t
                t.ps(0, 0.25)
            guarded("t = x; t += d (augmented assignment through an alias), x = " + name, {name: c, "d": d}, [], iadd_through_alias)
        # the circuit as the ARGUMENT of add (grouped and not, twice, onto a parent that already owns an ancilla)
        for grp in (True, False):
            def add_twice():
                par = lw.Circuit(c.input_modes + 3)
                par.add(qubit.CZ_Heralded(), 0)
                par.add(c, 1, group=grp)
                par.add(c, 2, group=grp)
                par.U_full
            guarded("parent.add(x, group=%s) twice, x = %s" % (grp, name), {name: c}, [], add_twice)
        cp = [None]

        def copy_then_edit():
            cp[0] = c.copy()
            cp[0].bs(0, 1, loss=0.1); cp[0].unpack_groups(); cp[0].compress_mode_swaps(); cp[0].remove_non_adjacent_bs()
            if cp[0].n_modes - len(cp[0].heralds["input"]) >= 1:
                cp[0].herald(0, 0) if 0 not in cp[0].heralds["input"] else None
        guarded("copy() then edits of the copy, " + name, {name: c}, [], copy_then_edit)
    # lossless circuits: Reck mapping, with and without error model
    for name, c in (("CNOT_Heralded", qubit.CNOT_Heralded()), ("herald in!=out lossless", None), ("unitary 5", lw.Unitary(lw.random_unitary(5, seed=11)))):
        if c is None:
            c = lw.Circuit(4); c.bs(0, 1); c.bs(2, 3); c.ps(1, 0.4); c.bs(1, 2); c.herald(1, 0, 3); c.herald(0, 2)
        guarded("Reck.map of " + name, {name: c}, [], lambda: itf.Reck().map(c))
        em = itf.ErrorModel(); em.loss = itf.dists.TopHat(0, 0.1); em.bs_reflectivity = itf.dists.Gaussian(0.5, 0.02, min_value=0.4, max_value=0.6)
        guarded("Reck(error model).map of " + name, {name: c}, [], lambda: itf.Reck(em).map(c, seed=5))
    # tomography: the base circuit
    for name, gs, nq in (("1 qubit S.H", [("H", 0), ("S", 0)], 1), ("2 qubits CNOT", [("H", 0), ("CNOT", 1)], 2)):
        base = ta.build_base(gs, nq, "heralded" if nq == 2 else "ps")
        ex = ta.Experiment(chk.seed)
        guarded("StateTomography of " + name, {name: base}, [], lambda: tm.StateTomography(nq, base, ex.state).process())
        if nq == 1 or th:
            guarded("LIProcessTomography of " + name, {name: base}, [], lambda: tm.LIProcessTomography(nq, base, ex.process).process())
            guarded("GateFidelity of " + name, {name: base}, [], lambda: tm.GateFidelity(nq, base, ex.process).process(np.eye(2 ** nq)))
    chk.add_phase("operations other than construction calls: arguments snapshotted around simulate / sample / analyse / map / display / tomography / + / copy")


def run(tier):
    chk = Check(PID, tier)
    chk.rule = ("cases = programs with object reuse (same sub-circuit added several times / to several parents / edited afterwards) and "
                "rejected calls of every invalid-argument class, on parents with and without ancillas; after EVERY call the observable "
                "state (n_modes, input_modes, heralds, U_full) of EVERY live object other than the call's target is compared with its "
                "state before the call, and after a raising call that of every object. non-trivial = contains a rejected call, a reused "
                "or a later-edited sub-circuit; distinct = distinct call sequences")
    th = tier == "thorough"
    c = config("reuse_rejects_big" if th else "reuse_rejects")
    cc.model_check(chk, PID, "reuse_rejects", c, ["InputModesInv"], PROPS + ["AncillaPrivate"], 3000, dump=False)
    cc.tlc.cleanup(PID + "_reuse_rejects")
    cc.sim_phase(chk, PID, "reuse_rejects", c, MINE, 16000 if th else 2400, 8, {"scenario": "tmpl", "numeric": False, "pnu": 3, "tmpl_loss": False},
                 nontrivial_fn=has_reject_or_reuse)
    cc.dump_phase(chk, PID, "reuse_numeric", config("reuse_numeric"), ["InputModesInv"], PROPS + ["UnitaryStep"], MINE, 1.0 if th else 0.3, 1200,
                  {"scenario": "tmpl", "numeric": True, "pnu": 3, "tmpl_loss": True}, nontrivial_fn=has_reject_or_reuse)
    cc.dump_phase(chk, PID, "single_rejects", config("single_rejects"), ["InputModesInv"], PROPS, MINE, 1.0 if th else 0.25, 1200,
                  {"scenario": "single", "numeric": False}, keep=lambda t: '"rej"' in t, nontrivial_fn=has_reject_or_reuse)
    cc.sim_phase(chk, PID, "copies_tmpl", config("copies_tmpl"), MINE | {"U", "n_modes", "heralds", "ancilla_count", "compile", "valid_call_raised"}, 9000 if th else 1500, 8,
                 {"scenario": "tmpl", "numeric": False, "pnu": 3, "tmpl_loss": False}, nontrivial_fn=lambda r: any(e[1] in ("copy", "plus") for e in r["prog"]))
    cc.sim_phase(chk, PID, "copies_pair", config("copies_pair"), MINE | {"U", "dim", "n_modes", "compile", "valid_call_raised"}, 9000 if th else 1500, 7,
                 {"scenario": "pair", "numeric": False, "pnu": 2}, nontrivial_fn=lambda r: any(e[1] in ("copy", "plus") for e in r["prog"]))
    other_operations(chk, th)
    cc.script_phase(chk, PID, "findings", cc.load_corpus(PID), MINE)
    cc.repo_tests_phase(chk, PID, MINE, ["tests/qubit", "tests/interferometers"] + (["tests/sdk", "tests/tomography", "tests/emulator/simulator_test.py"] if th else []))
    for prof in ("wiring", "rewrites"):
        cc.trace_phase(chk, PID, prof + "_ring", 2000 if th else 320, prof, MINE, numeric=True)
    chk.assumptions = ["TLC 1.8 + CommunityModules", "observable state = (n_modes, input_modes, heralds, U_full to 1e-9); shared Parameter objects are excepted by the property",
                       "frames of emulator / interferometer / tomography / display calls are checked by the checks of C03-C07, C14-C16, C19 on their own runs"]
    return chk.finish()


def replay_file(path):
    return cc.replay_file(PID, path, MINE)
