"""C10 - parameters are live, bounded and freezable."""
import multiprocessing as mp
import os

from .. import tlc
from ..common import Check
from ..tlc import RawTLA, MachineryError
from . import circuit_common as cc

PID = "C10"
MINE = {"U", "compile", "invalid_value_not_reported", "all_params", "valid_call_raised", "unitary", "dim", "leading_block"}
PK = ("refl", "phase", "loss")


def config(name):
    par = dict(NPar=3, ParKinds=PK, ParInit=(1, 1, 0), ParVals={0, 1, 9, 10}, Rids={1001}, Pids={1002, 3}, LossQs={1003}, Lqs={0, 1003},
               Convs={"H"}, ModeCap=2)
    if name == "live_single":        # parameter at every position kind, shared between a circuit and its (frozen) copies, rewrites in between
        return cc.consts_of(**par, NUs={3}, NObj=2, Targets={1, 2}, Numeric=True, MaxLen=3,
                            Kinds={"bs", "ps", "loss", "setpar", "copyf", "copy", "compress", "nonadj"})
    if name == "live_single_deep":
        return cc.consts_of(**par, NUs={3}, NObj=2, Targets={1, 2}, Numeric=False, MaxLen=6,
                            Kinds={"bs", "ps", "loss", "setpar", "copyf", "copy", "compress", "nonadj", "unpack"})
    if name == "live_pair":          # parameters inside groups and inside added sub-circuits, shared between two circuits
        return cc.consts_of(**par, Scenario="pair", PNu=3, NObj=3, Targets={1, 2}, AddPairs={(1, 2)}, Numeric=True, MaxLen=3, MaxAdds=2, MaxAnc=1,
                            Kinds={"ps", "bs", "add", "setpar", "copyf", "unpack"}, MaxComp=2, HeraldNs={0})
    if name == "live_pair_deep":
        return cc.consts_of(**par, Scenario="pair", PNu=3, NObj=3, Targets={1, 2}, AddPairs={(1, 2)}, Numeric=False, MaxLen=7, MaxAdds=2, MaxAnc=2,
                            Kinds={"ps", "bs", "loss", "herald", "add", "setpar", "copyf", "unpack", "compress", "nonadj"}, HeraldNs={0, 1},
                            MaxHer=(0, 1, 0))
    if name == "live_swaps":         # swap . parameter-valued component . swap sandwiches compressed while the parameter holds a boundary value (loss 0,
        #                              reflectivity 1/2 -> 0 ...), the parameter moved AFTER the rewrite: the rewritten circuit must follow it
        return cc.consts_of(NPar=2, ParKinds=("loss", "phase"), ParInit=(0, 0), ParVals={0, 1}, LossQs={1001}, Pids={1002}, Lqs={0}, ModeCap=2,
                            NUs={3}, NObj=1, Targets={1}, Numeric=False, MaxLen=5, SwapLevel=1, Kinds={"swap", "loss", "ps", "setpar", "compress"})
    raise KeyError(name)


PROPS = ["FrameProp", "FrozenProp", "LiveParams"]


def uses_param(r):
    return any(e[1] == "setpar" for e in r["prog"]) and any(isinstance(x, int) and 1000 <= x < 2000 for e in r["prog"] for x in e[3:] if not isinstance(x, (tuple, str)))


def params_phase(chk, th):
    """LwParams: exhaustive TLC over all interleavings of accepted / rejected updates + behaviours replayed into real objects"""
    from ..adapters import params as pa
    consts = dict(NP=2, NKeys=2, Vals={-1, 0, 1, 2}, NN=pa.NN, NONE=pa.NONE, NAN=pa.NAN)
    wd = tlc.workdir("C10_params")
    tlc.copy_specs(wd, {"LwParams"})
    tlc.write_mc(wd, "MC", "LwParams", consts)
    tlc.write_cfg(wd, "MC", consts, invariants=["InBounds", "BoundsNumeric", "DictBounds"], properties=["RejectedChangesNothing"])
    res = tlc.run(wd, "MC", timeout=900)
    tlc.require_clean_run(res, "C10 LwParams")
    chk.add_tlc("LwParams exhaustive (2 parameters, 2 keys, values -1..2 + non-numeric, bounds incl. None)", res,
                "invariants InBounds BoundsNumeric, property RejectedChangesNothing; all interleavings, no depth bound")
    for v in res.violations:
        raise MachineryError("LwParams violates %s" % v["name"])
    simdir = os.path.join(wd, "sim")
    os.makedirs(simdir)
    n = 12000 if th else 2400
    r2 = tlc.run(wd, "MC", workers=8, timeout=600, simulate="file=%s/tr,num=%d" % (simdir, n // 8), depth=12, seed=chk.seed % (2 ** 31))
    if r2.rc != 0:
        raise MachineryError("LwParams simulate failed: %s" % r2.out[-800:])
    paths = sorted(os.path.join(simdir, f) for f in os.listdir(simdir))
    cnt = 0
    with mp.get_context("fork").Pool(16) as pool:
        for r in pool.imap_unordered(pa.sim_worker, paths, chunksize=50):
            cnt += 1
            chk.count(key=repr((r["init"], r["script"])), nontrivial=any(s[2] == "rej" for s in r["script"]) and any(s[2] == "ok" for s in r["script"]))
            if cnt % 800 == 1:
                chk.sample({"module": "LwParams", "initial": r["init"], "calls": r["script"]})
            for clause, step, detail in r["findings"]:
                chk.violation(clause, detail, script={"module": "LwParams", "init": r["init"], "calls": r["script"]}, sig={"clause": clause})
    chk.traces_validated += cnt
    chk.add_phase("LwParams behaviours replayed into Parameter / ParameterDict", behaviours=cnt, depth=12)
    chk.count(key="boundary-probes")
    for clause, detail in pa.boundary_probes():
        chk.violation(clause, detail, script={"probe": "values a hair outside a bound"}, sig={"clause": clause, "probe": "boundary"})
    chk.add_phase("floating-point boundary probes (1 ulp .. 1e-9 relative outside a bound)", cases=64)
    # parameter values far outside [0, 2 pi): the matrix entry is exp(i phi) for the value as given (numpy's own argument reduction),
    # a frozen copy taken now reports the same matrix as the live circuit
    import numpy as np
    import lightworks as lw
    for phi in (1e9 + 0.3, -3.3e8, 5e7 + 1.234, 2.0 ** 50, 123456.789, -1e-12):
        par = lw.Parameter(0.0)
        c = lw.Circuit(2)
        c.bs(0, 1); c.ps(0, par); c.bs(0, 1)
        par.set(phi)
        chk.count(key="large-phase%r" % phi)
        B = np.array([[1, 1j], [1j, 1]]) / np.sqrt(2)
        ref = B @ np.diag([np.exp(1j * phi), 1]) @ B
        fz = c.copy(freeze_parameters=True)
        if np.abs(c.U - ref).max() > 1e-9 or np.abs(fz.U - c.U).max() > 1e-12:
            chk.violation("U", "a phase Parameter holding %r: the circuit's matrix differs from exp(i phi) by %.3g (frozen copy vs live: %.3g)"
                          % (phi, np.abs(c.U - ref).max(), np.abs(fz.U - c.U).max()), script={"probe": "large phase", "phi": phi}, sig={"clause": "U", "probe": "large_phase"})
    chk.add_phase("parameter values many turns away from [0, 2 pi)", cases=6)
    # ONE circuit object read, a parameter moved in its 7th significant digit, read again: the second matrix is that of the new value
    for kind, x0 in (("phase", 31.67), ("phase", 1.0), ("refl", 0.4), ("loss", 0.25)):
        par = lw.Parameter(x0)
        c = lw.Circuit(3)
        c.bs(0, 1)
        if kind == "phase":
            c.ps(1, par)
        elif kind == "refl":
            c.bs(1, 2, reflectivity=par)
        else:
            c.loss(1, par)
        c.bs(0, 1); c.bs(1, 2)
        c.U_full
        c.U
        par.set(x0 + 2e-7)
        chk.count(key="small-step/%s" % kind)
        again = c.U_full.copy()
        d = lw.Circuit(3)
        d.bs(0, 1)
        if kind == "phase":
            d.ps(1, x0 + 2e-7)
        elif kind == "refl":
            d.bs(1, 2, reflectivity=x0 + 2e-7)
        else:
            d.loss(1, x0 + 2e-7)
        d.bs(0, 1); d.bs(1, 2)
        if again.shape != d.U_full.shape or np.abs(again - d.U_full).max() > 1e-12:
            chk.violation("U", "a %s Parameter moved from %r by 2e-7 after the matrix had been read: the matrix read afterwards differs from the one of the new value by %.3g"
                          % (kind, x0, np.abs(again - d.U_full).max()), script={"probe": "small step", "kind": kind}, sig={"clause": "U", "probe": "small_step"})
    chk.add_phase("one circuit object across a parameter step of 2e-7", cases=4)
    tlc.cleanup("C10_params")


def run(tier):
    chk = Check(PID, tier)
    chk.rule = ("cases = (a) behaviours of LwParams (Set / SetMin / SetMax / dict assign / insert / remove, accepted and rejected) replayed into "
                "real Parameter / ParameterDict objects with the state compared after every call; (b) LwCircuit programs with Parameter-valued "
                "components (beam splitter, phase, loss; inside groups and added sub-circuits; shared between circuits and copies), "
                "Parameter.set interleaved with construction, rewrites and frozen copies, replayed and compared (U for the CURRENT values, "
                "get_all_params, compile error for invalid values). non-trivial = (a) has both an accepted and a rejected update, (b) sets a "
                "parameter that a circuit uses; distinct = distinct call sequences")
    th = tier == "thorough"
    params_phase(chk, th)
    pctx = {"parkinds": PK, "parinit": (1, 1, 0)}
    cc.dump_phase(chk, PID, "live_single", config("live_single"), ["UnitaryInv", "SemAgrees"], PROPS, MINE, 1.0 if th else 0.4, 1800,
                  dict(pctx, scenario="single", numeric=True), nontrivial_fn=uses_param)
    cc.dump_phase(chk, PID, "live_pair", config("live_pair"), ["UnitaryInv"], PROPS, MINE, 1.0 if th else 0.3, 1800,
                  dict(pctx, scenario="pair", numeric=True, pnu=3), nontrivial_fn=uses_param)
    cc.dump_phase(chk, PID, "live_swaps", config("live_swaps"), ["InputModesInv"], PROPS, MINE, 1.0 if th else 0.5, 1800,
                  dict(parkinds=("loss", "phase"), parinit=(0, 0), scenario="single", numeric=False), nontrivial_fn=uses_param,
                  keep=lambda t: '"compress"' in t and t.count('"swap"') >= 2 and '"setpar"' in t and ('"loss"' in t or '"ps"' in t))
    cc.sim_phase(chk, PID, "live_single_deep", config("live_single_deep"), MINE, 12000 if th else 2000, 8,
                 dict(pctx, scenario="single", numeric=False), nontrivial_fn=uses_param)
    cc.sim_phase(chk, PID, "live_pair_deep", config("live_pair_deep"), MINE, 12000 if th else 2000, 9,
                 dict(pctx, scenario="pair", numeric=False, pnu=3), nontrivial_fn=uses_param)
    chk.assumptions = ["TLC 1.8 + CommunityModules", "parameter values are drawn from a small id alphabet (0, 1/2, 1 / multiples of pi/4 / one invalid value per kind)",
                       "evaluator ev.py (calibrated against TLC in this run)"]
    return chk.finish()


def replay_file(path):
    return cc.replay_file(PID, path, MINE)
