"""Shared phases for the properties decided on LwCircuit (C01, C02, C08, C09, C19)."""
import os

import numpy as np
import random

from .. import tlc, replay_engine, trace_engine
from ..tlc import RawTLA, MachineryError

MODULES = {"LwRing", "LwMatrix", "LwFock", "LwCircuitDefs", "LwEmuDefs", "LwCircuit"}
DEFAULTS = dict(Scenario="single", NUs={3}, PNu=3, TNu=(3, 2), NObj=1, Numeric=True, MaxLen=2, MaxRej=0, MaxAnc=0,
                Kinds={"bs"}, BadModes=RawTLA("{}"), Rids={1}, Convs={"Rx"}, Lqs={0}, Pids={1}, LossQs={1}, BadVals=False,
                SwapLevel=0, UIds={"H"}, HeraldNs={0, 1}, Targets={1}, AddPairs=RawTLA("{}"), TmplLoss=False, TmplU=False,
                Ordered=False, MaxHer=(2, 2, 2, 2), MaxAdds=3, RejLast=True, MaxComp=99, NPar=0, ParKinds=(), ParInit=(), ParVals=RawTLA("{}"),
                DispArgs=RawTLA("{}"), ModeCap=99, DispMin=0, MaxPhot=2, PSU=RawTLA("{{}}"))


def consts_of(**kw):
    c = dict(DEFAULTS)
    c.update(kw)
    return c


def handle(chk, r, name, mine, nontrivial_fn=None):
    """fold one replay result into the check; returns number of violations added"""
    prog = r["prog"]
    nt = nontrivial_fn(r) if nontrivial_fn else (len(prog) > 0 and r["op"] != "rej")
    chk.count(key=repr(prog), nontrivial=nt)
    if r["drift"]:
        chk.drift.append(r["drift"])
    n = 0
    for clause, step, detail in r["findings"]:
        if clause.split("/")[0] in mine:
            n += chk.violation(clause, detail, script={"module": "LwCircuit", "config": name, "ctx": r.get("ctx"), "prog": prog, "step": step,
                                                       "init": r.get("init"), "calls": prog_to_calls(prog)},
                               sig={"clause": clause})
    return n


def model_check(chk, pid, name, consts, invariants, properties, timeout, dump):
    wd = tlc.workdir("%s_%s" % (pid, name))
    tlc.copy_specs(wd, MODULES)
    tlc.write_mc(wd, "MC", "LwCircuit", consts)
    tlc.write_cfg(wd, "MC", consts, invariants=invariants, properties=properties)
    res = tlc.run(wd, "MC", dump=dump, timeout=timeout)
    tlc.require_clean_run(res, "%s %s" % (pid, name))
    chk.add_tlc(name, res, "invariants %s, properties %s" % (list(invariants), list(properties)))
    for v in res.violations:
        raise MachineryError("specification config %s violates %s (the model itself is inconsistent)" % (name, v["name"]))
    return wd, res


def vacuity_gate(name, consts, ops):
    missing = [k for k in consts["Kinds"] if ops.get(k, 0) == 0]
    if consts["MaxRej"] > 0 and ops.get("rej", 0) == 0:
        missing.append("rej")
    if missing:
        raise MachineryError("vacuity: actions never taken in %s: %s" % (name, missing))


def dump_phase(chk, pid, name, consts, invariants, properties, mine, frac, timeout, ctx, keep=None, nontrivial_fn=None, limit=None):
    """exhaustive TLC run with state dump; (a sample of) the dumped programs replayed into the implementation"""
    wd, res = model_check(chk, pid, name, consts, invariants, properties, timeout, dump=True)
    ops = replay_engine.count_ops(res.dump)
    vacuity_gate(name, consts, ops)
    n = 0
    calib = 0.0
    for r in replay_engine.replay_dump(res.dump, "harness.adapters.circuit", "dump_worker", ctx, frac=frac, seed=chk.seed, keep=keep, limit=limit):
        n += 1
        calib = max(calib, r["calib"])
        if n % 499 == 1:
            chk.sample({"config": name, "program": r["prog"]})
        handle(chk, r, name, mine, nontrivial_fn)
    chk.traces_validated += n
    if calib > 1e-10:
        raise MachineryError("evaluator calibration failed on %s: max |ev - TLC| = %.3g" % (name, calib))
    chk.add_phase("replay of TLC dump " + name, programs=n, sampled_fraction=frac, evaluator_calibration_max_err=calib, op_counts=dict(ops))
    tlc.cleanup("%s_%s" % (pid, name))
    return n


def sim_phase(chk, pid, name, consts, mine, num, depth, ctx, nontrivial_fn=None, timeout=600, workers=8):
    """random behaviours of the specification (tlc -simulate) replayed into the implementation"""
    wd = tlc.workdir("%s_%s_sim" % (pid, name))
    tlc.copy_specs(wd, MODULES)
    tlc.write_mc(wd, "MC", "LwCircuit", consts)
    tlc.write_cfg(wd, "MC", consts, invariants=["InputModesInv"], properties=[])
    simdir = os.path.join(wd, "sim")
    os.makedirs(simdir)
    per = max(1, num // workers)
    res = tlc.run(wd, "MC", workers=workers, timeout=timeout, simulate="file=%s/tr,num=%d" % (simdir, per), depth=depth,
                  seed=chk.seed % (2 ** 31))
    if res.rc not in (0,) or res.timed_out:
        raise MachineryError("%s %s: tlc -simulate failed rc=%s\n%s" % (pid, name, res.rc, res.out[-1500:]))
    n = 0
    for r in replay_engine.replay_sim(simdir, "harness.adapters.circuit", "dump_worker", ctx):
        n += 1
        if n % 499 == 1:
            chk.sample({"config": name + " (simulate)", "program": r["prog"]})
        if r["calib"] > 1e-10:
            raise MachineryError("evaluator calibration failed on %s (simulate): %.3g" % (name, r["calib"]))
        handle(chk, r, name + "_sim", mine, nontrivial_fn)
    chk.traces_validated += n
    chk.add_phase("replay of TLC -simulate behaviours " + name, behaviours=n, depth=depth, seed=chk.seed)
    tlc.cleanup("%s_%s_sim" % (pid, name))
    return n


ADDPOS_MODULES = {"LwRing", "LwMatrix", "LwCircuitDefs", "LwAddPos"}
ADDPOS_INV = ["WellFormed", "Refines", "ValidAgree", "HeraldAgree"]
ADDPOS_VARIANTS = {"nocascade": "Refines", "unpinned": "Refines", "nointcount": "ValidAgree"}


def addpos_phase(chk, pid, name, consts, mine, frac, sim_num, sim_consts, sim_depth, ctx, timeout=1500, nontrivial_fn=None, variants=None):
    """LwAddPos: the positional (implementation-shaped) add algorithm refined against the line-identity model.
    (1) TLC checks the refinement exhaustively on `consts`; (2) the re-introduced defects must be refuted; (3) dumped programs and
    -simulate behaviours of a deeper scope are replayed: semantic conformance decides the property, the field-by-field comparison of the
    private bookkeeping with the positional record is reported (a difference is drift, not a violation)."""
    wd = tlc.workdir("%s_%s" % (pid, name))
    tlc.copy_specs(wd, ADDPOS_MODULES)
    c = dict(consts, Variant="impl")
    tlc.write_mc(wd, "MC", "LwAddPos", c)
    tlc.write_cfg(wd, "MC", c, invariants=ADDPOS_INV, properties=[])
    res = tlc.run(wd, "MC", dump=True, timeout=timeout)
    tlc.require_clean_run(res, "%s %s" % (pid, name))
    chk.add_tlc(name, res, "refinement of the positional add algorithm: invariants %s" % ADDPOS_INV)
    for v in res.violations:
        raise MachineryError("LwAddPos %s: the transcribed algorithm violates %s at %r (model inconsistent with the abstract Add: "
                             "either the transcription or the implementation's algorithm is wrong - replay the program)" % (name, v["name"], v["trace"][-1].get("prog")))
    ops = replay_engine.count_ops(res.dump)
    if not (ops.get("add") and ops.get("herald") and ops.get("probeall")):
        raise MachineryError("vacuity: LwAddPos %s actions never taken: %s" % (name, dict(ops)))
    stats = {"match": 0, "differ": 0}

    def fold(r, label):
        stats["match" if r.get("pos") == "match" else "differ"] += 1
        handle(chk, r, label, mine, nontrivial_fn)
    n = 0
    for r in replay_engine.replay_dump(res.dump, "harness.adapters.circuit", "dump_worker", ctx, frac=frac, seed=chk.seed, keep=lambda t: '"add"' in t):
        n += 1
        fold(r, name)
    tlc.cleanup("%s_%s" % (pid, name))
    refuted = {}
    for variant, inv in ADDPOS_VARIANTS.items():
        if variants is not None and variant not in variants:
            continue
        wdv = tlc.workdir("%s_%s_%s" % (pid, name, variant))
        tlc.copy_specs(wdv, ADDPOS_MODULES)
        cv = dict(consts, Variant=variant)
        tlc.write_mc(wdv, "MC", "LwAddPos", cv)
        tlc.write_cfg(wdv, "MC", cv, invariants=ADDPOS_INV, properties=[])
        rv = tlc.run(wdv, "MC", timeout=timeout)
        names = [v["name"] for v in rv.violations]
        if inv not in names:
            raise MachineryError("anti-vacuity: LwAddPos variant %s (a defect re-introduced into the algorithm) was not refuted (%s)" % (variant, names))
        refuted[variant] = {"invariant": inv, "program": repr(rv.violations[0]["trace"][-1].get("prog"))}
        tlc.cleanup("%s_%s_%s" % (pid, name, variant))
    ns = 0
    escalated = 0

    def run_sim(num, seed, tag):
        k = 0
        wds = tlc.workdir("%s_%s_%s" % (pid, name, tag))
        tlc.copy_specs(wds, ADDPOS_MODULES)
        cs = dict(sim_consts, Variant="impl")
        tlc.write_mc(wds, "MC", "LwAddPos", cs)
        tlc.write_cfg(wds, "MC", cs, invariants=ADDPOS_INV, properties=[])
        simdir = os.path.join(wds, "sim")
        os.makedirs(simdir)
        rs = tlc.run(wds, "MC", workers=8, timeout=timeout, simulate="file=%s/tr,num=%d" % (simdir, max(1, num // 8)), depth=sim_depth, seed=seed)
        if rs.violations:
            raise MachineryError("LwAddPos %s (simulate): the transcribed algorithm violates %s at %r" % (name, rs.violations[0]["name"], rs.violations[0]["trace"][-1].get("prog")))
        if rs.rc != 0 or rs.timed_out:
            raise MachineryError("%s %s: tlc -simulate failed rc=%s\n%s" % (pid, name, rs.rc, rs.out[-1500:]))
        sctx = dict(ctx, pnu=sim_consts["PNu"], tnu=tuple(sim_consts["TNu"]), tmpl_loss=sim_consts["TmplLoss"])
        for r in replay_engine.replay_sim(simdir, "harness.adapters.circuit", "dump_worker", sctx):
            k += 1
            fold(r, name + "_sim")
        tlc.cleanup("%s_%s_%s" % (pid, name, tag))
        return k
    if sim_num:
        ns = run_sim(sim_num, chk.seed % (2 ** 31), "sim")
        if stats["differ"] > 0 and not chk.violations:
            # the code no longer is the algorithm the refinement was proved for: the proof says nothing about it any more, so the
            # semantic replay has to carry the whole weight - look much harder (a difference alone is never reported as a violation)
            escalated = run_sim(8 * sim_num, (chk.seed + 1) % (2 ** 31), "sim2")
    chk.traces_validated += n + ns + escalated
    chk.add_phase("LwAddPos " + name + ": positional add algorithm refined against the abstract Add, replayed field by field",
                  programs_from_dump=n, sampled_fraction=frac, simulate_behaviours=ns, simulate_depth=sim_depth,
                  escalated_behaviours_after_drift=escalated, bookkeeping_equal=stats["match"], bookkeeping_differs=stats["differ"], refuted_variants=refuted, op_counts=dict(ops))
    return n + ns


def _gen(args):
    seed, n, numeric, profile = args
    from ..drivers import circuit_driver as cd
    rng = random.Random(seed)
    out = []
    for _ in range(n):
        values = []
        rec = cd.gen_trace(rng, numeric=numeric, profile=profile, values=values)
        rec.values = values
        out.append(rec)
    return out


def prog_to_calls(prog):
    """LwCircuit program entries <<res, op, t, args...>> -> driver calls (op, t, args); 'u' gets its block size"""
    calls = []
    for e in prog:
        op, t, a = e[1], e[2], tuple(e[3:])
        if op == "u":
            a = (a[0], a[1], 3 if a[1] in ("C3", "B3") else 2)
        calls.append((op, t, a))
    return calls


def script_phase(chk, pid, name, scripts, mine):
    """fixed histories (regression corpus, replay files): executed on the real objects, recorded, validated by LwCircuitTrace"""
    from ..drivers import circuit_driver as cd
    if not scripts:
        return 0
    recs = [cd.run_script(s["init"], [tuple(c) for c in s["calls"]]) for s in scripts]
    out = trace_engine.validate("%s_corpus_%s" % (pid, name), "LwCircuitTrace", [r.events for r in recs], {"LwRing", "LwMatrix", "LwCircuitDefs"})
    chk.add_tlc("trace validation of corpus " + name, out["res"], "LwCircuitTrace")
    nbad = 0
    for tid, (li, clauses) in sorted(out["bad"].items()):
        s = scripts[tid - 1]
        for cl in clauses:
            if cl == "DRIFT":
                chk.drift.append("corpus %s: %s" % (s.get("id"), s["calls"][li - 2]))
            elif cl in mine:
                nbad += chk.violation(cl, "corpus history %s rejected by LwCircuitTrace at call %d: %s" % (s.get("id", "?"), li - 1, s["calls"][li - 2]),
                                      script={"module": "LwCircuitTrace", "init": s["init"], "calls": s["calls"]}, sig={"clause": cl})
    for s in scripts:
        chk.count(key="corpus:" + repr(s["calls"]), nontrivial=True)
    chk.traces_validated += len(scripts)
    chk.add_phase("corpus " + name, histories=len(scripts), rejected=len(out["bad"]))
    tlc.cleanup("%s_corpus_%s" % (pid, name))
    return nbad


def load_corpus(pid):
    import json
    d = os.path.join(os.path.dirname(os.path.dirname(os.path.dirname(os.path.abspath(__file__)))), "corpus", pid)
    out = []
    if os.path.isdir(d):
        for f in sorted(os.listdir(d)):
            if f.endswith(".json"):
                with open(os.path.join(d, f)) as fh:
                    e = json.load(fh)
                for s in (e if isinstance(e, list) else [e]):
                    s.setdefault("id", f)
                    out.append(s)
    return out


def replay_file(pid, path, mine):
    """./check Cxx --replay path : re-execute the failing history through the same adapter and trace specification"""
    import json
    from ..common import Check
    with open(path) as fh:
        v = json.load(fh)
    sc = v["script"]
    chk = Check(pid, "quick")
    if "calls" in sc:
        s = {"init": sc["init"], "calls": sc["calls"], "id": os.path.basename(path)}
    elif "events" in sc:
        init = {"kind": "sizes", "sizes": [c["nu"] if c["nu"] >= 0 else None for c in sc["init"]]}
        s = {"init": init, "calls": [(e[1], e[2], e[3]) for e in sc["events"]], "id": os.path.basename(path)}
        if sc.get("values"):
            print("note: continuous-parameter history; replayed with the recorded structure only")
    else:
        ctx = sc.get("ctx") or {}
        init = ({"kind": "tmpl", "pnu": ctx.get("pnu", 3), "loss": ctx.get("tmpl_loss", False), "tnu": ctx.get("tnu", (3, 2))} if ctx.get("scenario") == "tmpl"
                else {"kind": "sizes", "sizes": [ctx.get("nu", 3)]})
        s = {"init": init, "calls": prog_to_calls(sc["prog"]), "id": os.path.basename(path)}
    script_phase(chk, pid, "replay", [s], mine)
    chk.rule = "replay of one recorded failing history"
    return chk.finish()


def float_reads(chk, c, term_c, S, order, rng, reads, mine, rec):
    """read actions on a circuit with continuous parameters: expectations from the evaluator (ev_reads, calibrated against TLC
    on the ring runs of the same check) applied to the abstract term TLC exported for this recorded history"""
    from ..adapters import circuit as ad
    from .. import ev_reads as er
    nin = term_c["nu"] - len(term_c["hord"])
    herald_ph = sum(h[2] for h in term_c["hord"]) + sum(term_c["anc"])
    if nin <= 0 or nin > 6 or herald_ph > 2 or S.shape[0] > 9:
        return 0
    nph = rng.randint(0, max(0, min(2, 3 - herald_ph)))
    ins = [0] * nin
    for _ in range(nph):
        ins[rng.randrange(nin)] += 1
    ins = tuple(ins)
    lossy = S.shape[0] > term_c["nu"] + len(term_c["anc"])
    nbad = 0
    todo = []
    if "simulate" in reads:
        todo.append((("ok", "simulate", 0, ins), er.sim_table(term_c, S, ins)))
    if "sdist" in reads:
        todo.append((("ok", "sdist", 0, ins), er.sampler_dist(term_c, S, ins)))
        # almost switched-off / almost complete couplers: amplitudes of 1e-5 next to amplitudes of order one; every two-photon input
        if nin >= 3 and herald_ph == 0 and any(isinstance(v, float) and (0 < v < 1e-8 or 0 < 1 - v < 1e-8) for v in rec.values):
            import itertools
            for i, j in itertools.combinations_with_replacement(range(min(nin, 4)), 2):
                in2 = [0] * nin
                in2[i] += 1
                in2[j] += 1
                if tuple(in2) != ins:
                    todo.append((("ok", "sdist", 0, tuple(in2)), er.sampler_dist(term_c, S, tuple(in2))))
    if "analyze" in reads:
        todo.append((("ok", "analyze", 0, ins, frozenset()), er.analyzer_table(term_c, S, ins, frozenset(), lossy)))
    if "quick" in reads:
        pnr = rng.random() < 0.5
        todo.append((("ok", "quick", 0, ins, frozenset(), pnr), er.quick_table(term_c, S, ins, frozenset(), pnr)))
    before = ad.snapshot(c)
    for event, payload in todo:
        chk.count(key="floatread" + repr(event) + repr(rec.values[:4]))
        for clause, detail in ad.check_read(c, event, ("float", payload), term_c, order, S):
            if clause.split("/")[0] in mine:
                script = [(e["res"], e["op"], e["t"], e["a"]) for e in rec.events[1:]]
                nbad += chk.violation(clause, "continuous parameters: " + detail,
                                      script={"module": "LwCircuitTrace+evaluator", "init": rec.events[0]["circ"], "values": rec.values, "events": script,
                                              "read": list(event)}, sig={"clause": clause})
    if ad.snapshot(c) != before and "read_changed_state" in mine:
        nbad += chk.violation("read_changed_state", "a read action changed the circuit", script={"read": "float"}, sig={"clause": "read_changed_state"})
    return nbad


def trace_phase(chk, pid, name, n, profile, mine, numeric=True, batch=400, nontrivial_fn=None, reads=()):
    """code -> spec: histories recorded from real objects, validated by LwCircuitTrace (TLC); for structure-only
    (continuous-parameter) traces TLC decides structure and exports the term, the evaluator decides the numbers"""
    import multiprocessing as mp
    from ..adapters import circuit as ad
    from .. import ev
    nproc = 8
    per = max(1, n // nproc)
    jobs = [(chk.seed * 1000 + i + (7 if numeric else 13) + sum(map(ord, name)), per, numeric, profile) for i in range(nproc)]
    with mp.get_context("fork").Pool(nproc) as pool:
        recs = [r for part in pool.map(_gen, jobs) for r in part]
    nbad = 0
    nacc = 0
    for b0 in range(0, len(recs), batch):
        part = recs[b0:b0 + batch]
        out = trace_engine.validate("%s_tr_%s" % (pid, name), "LwCircuitTrace", [r.events for r in part],
                                    {"LwRing", "LwMatrix", "LwCircuitDefs"})
        chk.add_tlc("trace validation %s [%d..%d)" % (name, b0, b0 + len(part)), out["res"], "LwCircuitTrace, -continue")
        nacc += len(out["accepted"])
        for tid, (li, clauses) in sorted(out["bad"].items()):
            rec = part[tid - 1]
            script = [(e["res"], e["op"], e["t"], e["a"]) for e in rec.events[1:li]]
            if clauses == ["DRIFT"]:
                chk.drift.append("trace %s: implementation accepted a call the specification rejects: %s" % (name, script[-1:]))
                continue
            for cl in clauses:
                if cl in mine:
                    nbad += chk.violation(cl, "recorded history rejected by LwCircuitTrace at event %d: %s" % (li, script[-1]),
                                          script={"module": "LwCircuitTrace", "profile": profile, "init": rec.events[0]["circ"],
                                                  "values": rec.values, "events": script},
                                          sig={"clause": cl})
        if not numeric:
            for tid, term in out["terms"].items():
                rec = part[tid - 1]
                for o, c in rec.objs.items():
                    if c is None or term[o - 1]["nu"] < 0:
                        continue
                    try:
                        S = ev.sem(term[o - 1], sym=rec.values)
                    except Exception as e:  # noqa: BLE001
                        raise MachineryError("evaluator failed on exported term: %r" % (e,))
                    r = ad.conforms(c, term[o - 1], S)
                    if r is None and reads:
                        nbad += float_reads(chk, c, term[o - 1], S, list(ad.LAST_ORDER), random.Random(tid * 31 + o), reads, mine, rec)
                    if r and r[0] in mine:
                        script = [(e["res"], e["op"], e["t"], e["a"]) for e in rec.events[1:]]
                        nbad += chk.violation(r[0], "object %d (continuous parameters): %s" % (o, r[1]),
                                              script={"module": "LwCircuitTrace+evaluator", "profile": profile, "init": rec.events[0]["circ"],
                                                      "values": rec.values, "events": script}, sig={"clause": r[0]})
        for i, rec in enumerate(part):
            nt = any(e["op"] == "add" and e["res"] == "ok" for e in rec.events[1:]) if profile != "components" else len(rec.events) > 4
            chk.count(key=repr([(e["res"], e["op"], e["t"], e["a"]) for e in rec.events[1:]]) + repr(rec.values[:3]), nontrivial=nt)
        if b0 == 0 and part:
            chk.sample({"trace profile": profile, "numeric": numeric,
                        "events": [(e["res"], e["op"], e["t"], e["a"]) for e in part[0].events[1:]]})
        tlc.cleanup("%s_tr_%s" % (pid, name))
    chk.traces_validated += len(recs)
    chk.add_phase("recorded traces " + name, traces=len(recs), accepted=nacc, profile=profile, numeric=numeric,
                  events=sum(len(r.events) - 1 for r in recs))
    return nbad


class _Shim:
    """final observation of a recorded object, shaped like a Circuit for adapters.circuit.conforms"""

    def __init__(self, fin):
        self.n_modes = fin["n_modes"]
        self._internal_modes = fin["internal"]
        self.input_modes = fin["input_modes"]
        self.heralds = fin["heralds"]
        self.U_full = fin["U"]
        self.U = fin["U"][: self.n_modes, : self.n_modes]


def repo_tests_phase(chk, pid, mine, test_paths, timeout=1500, batch=300):
    """the repository's own tests as trace sources: run them under harness.pytest_plugin (recording every public Circuit
    construction call made at depth 0), validate the traces with LwCircuitTrace (structure) and the evaluator (numbers)"""
    import pickle
    import subprocess
    import sys
    from ..adapters import circuit as ad
    from .. import ev
    wd = tlc.workdir("%s_repotests" % pid)
    out = os.path.join(wd, "traces.pkl")
    repo = os.environ.get("LW_REPO", "/repo")
    env = dict(os.environ, LW_TRACE_OUT=out, MPLBACKEND="Agg")
    cmd = [sys.executable, "-m", "pytest", "-q", "-x", "-p", "no:cacheprovider", "-p", "harness.pytest_plugin", "-p", "no:rerunfailures"] + \
          [os.path.join(repo, t) for t in test_paths]
    p = subprocess.run(cmd, cwd=repo, env=env, stdout=subprocess.PIPE, stderr=subprocess.STDOUT, text=True, timeout=timeout)
    if not os.path.exists(out):
        raise MachineryError("repository tests under the recording plugin produced no traces:\n" + p.stdout[-1500:])
    with open(out, "rb") as fh:
        recs = [r for r in pickle.load(fh) if len(r.get("events", [])) > 1]
    tests_failed = " failed" in p.stdout.split("\n")[-2] if p.stdout.strip() else False
    nbad = 0
    nacc = 0
    for b0 in range(0, len(recs), batch):
        part = recs[b0:b0 + batch]
        res = trace_engine.validate("%s_repotr" % pid, "LwCircuitTrace", [r["events"] for r in part], {"LwRing", "LwMatrix", "LwCircuitDefs"})
        chk.add_tlc("trace validation of repository tests [%d..%d)" % (b0, b0 + len(part)), res["res"], "LwCircuitTrace, structure; numbers by the evaluator")
        nacc += len(res["accepted"])
        for tid, (li, clauses) in sorted(res["bad"].items()):
            r = part[tid - 1]
            script = [(e["res"], e["op"], e["t"], e["a"]) for e in r["events"][1:li]]
            if clauses == ["DRIFT"]:
                chk.drift.append("repository test %s: implementation accepted a call the specification rejects: %s" % (r["test"], script[-1:]))
                continue
            for cl in clauses:
                if cl in mine:
                    nbad += chk.violation(cl, "history recorded from repository test %s rejected by LwCircuitTrace at event %d: %s" % (r["test"], li, script[-1]),
                                          script={"module": "LwCircuitTrace", "test": r["test"], "events": script, "values": r["values"]}, sig={"clause": cl})
        for tid, term in res["terms"].items():
            r = part[tid - 1]
            for s, fin in r["finals"].items():
                tc = term[s - 1]
                if tc["nu"] < 0 or "err" in fin:
                    if "err" in fin and tc["nu"] >= 0 and "compile" in mine:
                        vals = r["values"]
                        if not any(v != v for v in vals):     # NaN = a non-numeric parameter value: a compile error is expected
                            nbad += chk.violation("compile", "repository test %s: object %d does not compile: %s" % (r["test"], s, fin["err"]),
                                                  script={"test": r["test"]}, sig={"clause": "compile"})
                    continue
                vals = fin.get("values", r["values"])
                vals = vals + r["values"][len(vals):]
                try:
                    S = ev.sem(tc, sym=vals, blocks=r["blocks"])
                except Exception:  # noqa: BLE001
                    continue            # e.g. a parameter value outside its component's range at that moment
                if not np.all(np.isfinite(S)):
                    continue
                c = ad.conforms(_Shim(fin), tc, S)
                if c and c[0] in mine:
                    script = [(e["res"], e["op"], e["t"], e["a"]) for e in r["events"][1:]]
                    nbad += chk.violation(c[0], "repository test %s, object %d: %s" % (r["test"], s, c[1]),
                                          script={"module": "LwCircuitTrace+evaluator", "test": r["test"], "events": script, "values": r["values"]}, sig={"clause": c[0]})
        tlc.cleanup("%s_repotr" % pid)
    for r in recs:
        chk.count(key="repotest:" + r["test"], nontrivial=len(r["events"]) > 3)
    if recs:
        chk.sample({"repository test": recs[0]["test"], "events": [(e["res"], e["op"], e["t"], e["a"]) for e in recs[0]["events"][1:8]]})
    chk.traces_validated += len(recs)
    chk.add_phase("repository tests as trace sources", tests_with_traces=len(recs), accepted=nacc, truncated=sum(1 for r in recs if r.get("truncated")),
                  pytest_tail=p.stdout.strip().split("\n")[-1][:200])
    tlc.cleanup("%s_repotests" % pid)
    return nbad
