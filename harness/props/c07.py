"""C07 - sampling draws from the exact detected, heralded, post-selected distribution."""
import math
import os
import random
from fractions import Fraction

import numpy as np

from .. import tlc, tlaval
from ..common import Check
from ..tlc import MachineryError, RawTLA

PID = "C07"
ZMAX = 7.0


def circuits():
    import lightworks as lw
    out = {}
    c = lw.Circuit(4)                      # lossy, 1-photon herald on mode 3 (in) / 3 (out)
    c.bs(0, 1); c.bs(2, 3); c.bs(1, 2); c.loss(1, 0.5); c.bs(0, 1); c.herald(1, 3)
    out["herald1_lossy"] = (c, [1, 1, 0])
    c = lw.Circuit(3)                      # no heralds, bunching possible
    c.bs(0, 1); c.bs(1, 2); c.bs(0, 1)
    out["plain3"] = (c, [1, 1, 0])
    c = lw.Circuit(4)                      # 0-photon herald with different in / out modes
    c.bs(0, 1); c.bs(1, 2); c.bs(2, 3); c.loss(0, 0.5); c.herald(0, 3, 0)
    out["herald0_inout"] = (c, [1, 0, 1])
    c = lw.Circuit(3)
    c.bs(0, 2, convention="H"); c.bs(1, 2); c.loss(2, 0.5); c.herald(1, 1, 2)
    out["herald1_b"] = (c, [2, 0])
    # three photons, no heralds: threshold detection merges several bunched patterns into one outcome (Hadamard matrix: rational probabilities)
    h4 = np.array([[1, 1, 1, 1], [1, -1, 1, -1], [1, 1, -1, -1], [1, -1, -1, 1]], dtype=complex) / 2
    c = lw.Circuit(4)
    c.add(lw.Unitary(h4), 0); c.ps(0, math.pi / 2); c.bs(0, 1); c.bs(0, 1)
    out["plain4_3ph"] = (c, [1, 1, 1, 0])
    c = lw.Circuit(4)                      # two heralds with different photon numbers, declared in DESCENDING mode order, lossy
    c.loss(0, 0.5); c.add(lw.Unitary(h4.copy()), 0); c.loss(1, 0.5); c.herald(1, 3); c.herald(0, 1)      # (the loss on output mode 1 breaks the Hadamard symmetry between the two heralds)
    out["herald2_desc"] = (c, [1, 1])
    return out


def rational(p, maxden=1 << 16):
    f = Fraction(p).limit_denominator(maxden)
    if abs(float(f) - p) > 1e-12:
        return None
    return f


PS_RULES = {"none": frozenset(), "one_on_0": frozenset({((0,), (1,))}), "le1_on_01": frozenset({((0, 1), (0, 1))})}


def ps_obj(name):
    import lightworks as lw
    if name == "none":
        return None
    if name == "lambda_ge1":
        return lambda s: s[0] >= 1
    o = lw.PostSelection()
    for modes, counts in sorted(PS_RULES[name]):
        o.add(tuple(modes), tuple(counts))
    return o


def exact_model(chk, tag, nmodes, dist, eta, pdark, pnr, heralds, ps, mindet, entry):
    """TLC explores every branch of the pipeline; returns (ExactOut: dict pattern -> Fraction, total emitted mass, states)"""
    wd = tlc.workdir("C07_" + tag)
    tlc.copy_specs(wd, {"LwRing", "LwSampling"})
    consts = dict(NModes=nmodes, Dist={(tuple(s), f.numerator, f.denominator) for s, f in dist.items()},
                  Eta=(eta.numerator, eta.denominator), PDark=(pdark.numerator, pdark.denominator), Pnr=pnr,
                  Heralds={(m + 1, n) for m, n in heralds.items()} if heralds else RawTLA("{}"),
                  PS=ps if ps else RawTLA("{}"), MinDet=mindet, Entry=entry)
    tlc.write_mc(wd, "MC", "LwSampling", consts)
    tlc.write_cfg(wd, "MC", consts, invariants=["EmitSafe", "WeightOk", "ThresholdOk"], properties=["HeraldAfterDetection"])
    res = tlc.run(wd, "MC", dump=True, timeout=600, workers=4)
    tlc.require_clean_run(res, "C07 " + tag)
    for v in res.violations:
        raise MachineryError("LwSampling config %s violates %s" % (tag, v["name"]))
    out = {}
    total = Fraction(0)
    for st in tlaval.parse_dump(res.dump):
        if st["stage"] in ("emit", "discard"):
            wgt = Fraction(st["w"][0], st["w"][1])
            total += wgt
            if st["stage"] == "emit":
                out[tuple(st["st"])] = out.get(tuple(st["st"]), Fraction(0)) + wgt
    if total != 1:
        raise MachineryError("LwSampling %s: branch weights sum to %s, not 1" % (tag, total))
    chk.add_tlc("LwSampling " + tag, res, "every branch of one sample; EmitSafe, WeightOk, ThresholdOk, HeraldAfterDetection")
    tlc.cleanup("C07_" + tag)
    return out, sum(out.values(), Fraction(0))


def ztest(counts, probs, n):
    """per-cell two-sided z on cells with n p >= 50, pooled rest; returns (worst |z|, cell)"""
    worst = (0.0, None)
    rest_c = rest_p = 0.0
    for cell, p in probs.items():
        c = counts.get(cell, 0)
        if n * p >= 50 and p < 1:
            z = (c - n * p) / math.sqrt(n * p * (1 - p))
            if abs(z) > worst[0]:
                worst = (abs(z), cell)
        elif p >= 1:
            if c != n:
                worst = (99.0, cell)
        else:
            rest_c += c
            rest_p += p
    if n * rest_p >= 50:
        z = (rest_c - n * rest_p) / math.sqrt(n * rest_p * (1 - rest_p))
        if abs(z) > worst[0]:
            worst = (abs(z), "rest")
    return worst


def one_config(chk, name, cname, det, psname, mindet, N, seed):
    import lightworks as lw
    from lightworks import emulator as emu
    c, ins = circuits()[cname]
    eta, pdark, pnr = det
    sampler = emu.Sampler(c, lw.State(ins), detector=emu.Detector(efficiency=float(eta), p_dark=float(pdark), photon_counting=pnr))
    pd = sampler.probability_distribution
    dist = {}
    for s, p in pd.items():
        f = rational(p)
        if f is None:
            raise MachineryError("configuration %s: the sampler's distribution is not a small rational (%r)" % (name, p))
        dist[tuple(s.s)] = f
    if sum(dist.values()) != 1:
        raise MachineryError("configuration %s: distribution sums to %s" % (name, sum(dist.values())))
    heralds = dict(c.heralds["output"])
    ps_rules = PS_RULES.get(psname)
    lam = None
    if psname == "lambda_ge1":
        ps_rules = frozenset({((0,), tuple(range(1, 5)))})     # s[0] >= 1 as a rule with counts 1..4
    script = {"module": "LwSampling", "config": name, "circuit": cname, "detector": [str(eta), str(pdark), pnr], "post_select": psname,
              "min_detection": mindet, "N": N, "seed": seed}
    bad = 0
    hz = {"heralds": bool(heralds)}
    # ---- sample_N_inputs -------------------------------------------------------------
    exact, acc = exact_model(chk, name + "_nin", c.n_modes, dist, eta, pdark, pnr, heralds, ps_rules, mindet, "n_inputs")
    r1 = sampler.sample_N_inputs(N, post_select=ps_obj(psname), min_detection=mindet, seed=seed)
    r1b = sampler.sample_N_inputs(N, post_select=ps_obj(psname), min_detection=mindet, seed=seed)
    counts = {tuple(s.s): n for s, n in dict(r1).items()}
    chk.count(key=name + "/n_inputs")
    if counts != {tuple(s.s): n for s, n in dict(r1b).items()}:
        bad += chk.violation("seed_repro", "%s: sample_N_inputs with the same seed gave two different results" % name, script, sig=dict(hz, call="Sampler.sample_N_inputs"))
    # the seeds at the edge of the domain reproduce too (0 is a seed, not "no seed")
    for edge_seed in (0, 2 ** 32 - 1):
        ra = sampler.sample_N_inputs(2000, post_select=ps_obj(psname), min_detection=mindet, seed=edge_seed)
        import random as _r
        _r.random(); np.random.random()          # other users of the global generators in between
        rb = sampler.sample_N_inputs(2000, post_select=ps_obj(psname), min_detection=mindet, seed=edge_seed)
        if dict(ra) != dict(rb):
            bad += chk.violation("seed_repro", "%s: sample_N_inputs with seed %d gave two different results" % (name, edge_seed), script, sig=dict(hz, call="Sampler.sample_N_inputs"))
            break
    for s in counts:
        if s not in exact:
            bad += chk.violation("emitted_state_not_allowed", "%s: sample_N_inputs returned %s, which no branch of the specification emits "
                                 "(heralds / post-selection / min_detection / herald removal)" % (name, s), script, sig=dict(hz, call="Sampler.sample_N_inputs"))
            break
    if sum(counts.values()) > N:
        bad += chk.violation("count", "%s: more samples than inputs" % name, script, sig=dict(hz, call="Sampler.sample_N_inputs"))
    z, cell = ztest(counts, {k: float(v) for k, v in exact.items()}, N)
    if z > ZMAX:
        bad += chk.violation("frequency", "%s: sample_N_inputs frequency of %s deviates from the exact detected distribution (|z| = %.1f, N = %d): "
                             "observed %s, exact p = %s" % (name, cell, z, N, counts.get(cell) if cell != "rest" else "-", exact.get(cell) if cell != "rest" else "-"),
                             script, sig=dict(hz, call="Sampler.sample_N_inputs"))
    if 0 < acc < 1:
        za = (sum(counts.values()) - N * float(acc)) / math.sqrt(N * float(acc) * (1 - float(acc)))
        if abs(za) > ZMAX:
            bad += chk.violation("accepted_fraction", "%s: accepted fraction %.5f vs exact %.5f (|z| = %.1f)" % (name, sum(counts.values()) / N, float(acc), abs(za)),
                                 script, sig=dict(hz, call="Sampler.sample_N_inputs"))
    chk.extra.setdefault("z_scores", []).append({"config": name, "method": "sample_N_inputs", "worst_abs_z": round(z, 2), "cells": len(exact)})
    # ---- sample_N_outputs (no dark counts; the library applies the detector as threshold only: efficiency must be 1 to be in scope) ----
    if pdark == 0 and eta == 1:
        exact2, acc2 = exact_model(chk, name + "_nout", c.n_modes, dist, Fraction(1), Fraction(0), pnr, heralds, ps_rules, mindet, "n_outputs")
        chk.count(key=name + "/n_outputs")
        if acc2 > 0:
            r2 = sampler.sample_N_outputs(N // 4, post_select=ps_obj(psname), min_detection=mindet, seed=seed)
            r2b = sampler.sample_N_outputs(N // 4, post_select=ps_obj(psname), min_detection=mindet, seed=seed)
            c2 = {tuple(s.s): n for s, n in dict(r2).items()}
            if c2 != {tuple(s.s): n for s, n in dict(r2b).items()}:
                bad += chk.violation("seed_repro", "%s: sample_N_outputs not reproducible with the same seed" % name, script, sig=dict(hz, call="Sampler.sample_N_outputs"))
            if sum(c2.values()) != N // 4:
                bad += chk.violation("count", "%s: sample_N_outputs returned %d samples, asked for %d" % (name, sum(c2.values()), N // 4), script,
                                     sig=dict(hz, call="Sampler.sample_N_outputs"))
            for s in c2:
                if s not in exact2:
                    bad += chk.violation("emitted_state_not_allowed", "%s: sample_N_outputs returned %s which the specification never emits" % (name, s), script,
                                         sig=dict(hz, call="Sampler.sample_N_outputs"))
                    break
            z2, cell2 = ztest(c2, {k: float(v / acc2) for k, v in exact2.items()}, N // 4)
            if z2 > ZMAX:
                bad += chk.violation("frequency", "%s: sample_N_outputs frequency of %s deviates (|z| = %.1f)" % (name, cell2, z2), script, sig=dict(hz, call="Sampler.sample_N_outputs"))
            chk.extra["z_scores"].append({"config": name, "method": "sample_N_outputs", "worst_abs_z": round(z2, 2), "cells": len(exact2)})
    # ---- sample() ---------------------------------------------------------------------
    exact3, _ = exact_model(chk, name + "_one", c.n_modes, dist, eta, pdark, pnr, {}, frozenset(), 0, "sample")
    M = 4000
    random.seed(seed)
    got = {}
    for _ in range(M):
        s = tuple(sampler.sample().s)
        got[s] = got.get(s, 0) + 1
    chk.count(key=name + "/sample")
    if heralds:
        # the property: every returned state satisfies the heralds and has herald modes removed
        wrong = [s for s in got if len(s) != c.n_modes - len(heralds)]
        if wrong:
            bad += chk.violation("sample_ignores_heralds", "%s: Sampler.sample() returned %s: herald modes not removed / heralds not checked" % (name, wrong[0]),
                                 script, sig={"call": "Sampler.sample", "heralds": True})
    else:
        z3, cell3 = ztest(got, {k: float(v) for k, v in exact3.items()}, M)
        for s in got:
            if s not in exact3:
                bad += chk.violation("emitted_state_not_allowed", "%s: sample() returned %s" % (name, s), script, sig={"call": "Sampler.sample", "heralds": False})
                break
        if z3 > ZMAX:
            bad += chk.violation("frequency", "%s: sample() frequency of %s deviates (|z| = %.1f)" % (name, cell3, z3), script, sig={"call": "Sampler.sample", "heralds": False})
    # ---- QuickSampler sampling methods ------------------------------------------------
    if psname != "lambda_ge1" and eta == 1 and pdark == 0:
        kw = dict(photon_counting=pnr)
        if ps_obj(psname) is not None:
            kw["post_select"] = ps_obj(psname)
        try:
            q = emu.QuickSampler(c, lw.State(ins), **kw)
            qd = {tuple(s.s): p for s, p in q.probability_distribution.items()}
        except Exception:  # noqa: BLE001
            qd = None
        if qd:
            chk.count(key=name + "/quick")
            rq = q.sample_N_outputs(N // 4, seed=seed)
            rqb = q.sample_N_outputs(N // 4, seed=seed)
            cq = {tuple(s.s): n for s, n in dict(rq).items()}
            if cq != {tuple(s.s): n for s, n in dict(rqb).items()}:
                bad += chk.violation("seed_repro", "%s: QuickSampler.sample_N_outputs not reproducible" % name, script, sig={"call": "QuickSampler.sample_N_outputs"})
            if sum(cq.values()) != N // 4:
                bad += chk.violation("count", "%s: QuickSampler.sample_N_outputs returned %d of %d" % (name, sum(cq.values()), N // 4), script, sig={"call": "QuickSampler.sample_N_outputs"})
            if any(s not in qd for s in cq):
                bad += chk.violation("emitted_state_not_allowed", "%s: QuickSampler returned a state outside its distribution" % name, script, sig={"call": "QuickSampler.sample_N_outputs"})
            zq, cellq = ztest(cq, qd, N // 4)
            if zq > ZMAX:
                bad += chk.violation("frequency", "%s: QuickSampler.sample_N_outputs frequency of %s deviates (|z| = %.1f)" % (name, cellq, zq), script, sig={"call": "QuickSampler.sample_N_outputs"})
            random.seed(seed)
            gq = {}
            for _ in range(M):
                s = tuple(q.sample().s)
                gq[s] = gq.get(s, 0) + 1
            if any(s not in qd for s in gq):
                bad += chk.violation("emitted_state_not_allowed", "%s: QuickSampler.sample returned a state outside its distribution" % name, script, sig={"call": "QuickSampler.sample"})
            zq2, cq2 = ztest(gq, qd, M)
            if zq2 > ZMAX:
                bad += chk.violation("frequency", "%s: QuickSampler.sample frequency of %s deviates (|z| = %.1f)" % (name, cq2, zq2), script, sig={"call": "QuickSampler.sample"})
    return bad


F = Fraction
QUICK = [
    ("c1", "herald1_lossy", (F(1, 2), F(1, 4), True), "none", 0),
    ("c2", "herald1_lossy", (F(3, 4), F(1, 8), False), "one_on_0", 1),
    ("c3", "plain3", (F(1, 2), F(0), True), "le1_on_01", 1),
    ("c4", "plain3", (F(1), F(0), False), "none", 2),
    ("c5", "herald0_inout", (F(1), F(0), True), "lambda_ge1", 0),
    ("c6", "herald1_b", (F(1, 2), F(1, 4), False), "none", 0),
    ("c7", "herald1_lossy", (F(1, 2), F(0), True), "none", 2),      # a photon-carrying herald together with min_detection and loss
    ("c8", "herald1_b", (F(3, 4), F(0), True), "none", 1),
    # ideal threshold detectors (the documented scope of sample_N_outputs): several photon patterns collapse onto one outcome
    ("c9", "plain4_3ph", (F(1), F(0), False), "none", 0),
    ("c10", "herald1_lossy", (F(1), F(0), False), "none", 0),
    ("c11", "herald1_b", (F(1), F(0), False), "le1_on_01", 1),
    # several heralds in non-ascending declaration order; min_detection together with a photon-carrying herald and loss, ideal detectors
    ("c12", "herald2_desc", (F(3, 4), F(0), True), "none", 0),
    ("c13", "herald2_desc", (F(1), F(0), True), "none", 2),
    ("c14", "herald1_lossy", (F(1), F(0), True), "none", 2),
    ("c15", "herald1_lossy", (F(1), F(0), False), "none", 1),
    # the end of the efficiency range: every photon lost, only dark counts are ever detected
    ("c16", "plain3", (F(0), F(1, 4), True), "none", 1),
    ("c17", "herald0_inout", (F(0), F(1, 8), False), "none", 0),
    # min_detection equal to the number of injected photons, lossy circuit, dark counts: a lost photon can be "repaired" by a dark count
    ("c18", "herald0_inout", (F(1), F(1, 4), True), "none", 2),
    ("c19", "herald1_lossy", (F(1, 2), F(1, 4), True), "none", 2),
    # descending heralds under ideal detectors without min_detection (sample_N_outputs sees the outcomes with lost photons too)
    ("c20", "herald2_desc", (F(1), F(0), True), "none", 0),
    ("c21", "herald2_desc", (F(1), F(0), False), "none", 0),
]


def run(tier):
    chk = Check(PID, tier, level="other")
    th = tier == "thorough"
    N = 1000000 if th else 200000
    cfgs = list(QUICK)
    if th:
        rng = random.Random(chk.seed)
        names = list(circuits())
        for i in range(30):
            det = (rng.choice([F(1), F(1, 2), F(3, 4), F(1, 4)]), rng.choice([F(0), F(1, 4), F(1, 8)]), rng.random() < 0.5)
            cfgs.append(("r%d" % i, rng.choice(names), det, rng.choice(["none", "one_on_0", "le1_on_01", "lambda_ge1"]), rng.choice([0, 0, 1, 2])))
    for name, cname, det, psname, mindet in cfgs:
        one_config(chk, name, cname, det, psname, mindet, N, chk.seed % (2 ** 31))
        chk.sample({"config": name, "circuit": cname, "detector(eff, p_dark, pnr)": [str(det[0]), str(det[1]), det[2]], "post_select": psname, "min_detection": mindet})
    chk.traces_validated = chk.evaluations
    for k in list(chk.nontrivial):
        pass
    chk.rule = ("cases = (circuit, input, detector setting, post-selection, min_detection) configurations x sampling method; for each, TLC explores "
                "every branch of the LwSampling pipeline with exact rational weights (safety invariants on every emitted state) and the terminal "
                "states give the exact distribution; the real sampling result must only contain states the specification emits, have the right "
                "count, be reproducible for a fixed seed, and its frequencies must pass a per-cell z-test (|z| <= 7) against the exact values. "
                "distinct = distinct (configuration, method) pairs, all non-trivial (every configuration has loss or detector imperfection or filtering)")
    chk.extra["explanation"] = ("Model checking decides the pipeline's safety clauses and supplies the exact reference distribution; convergence of empirical "
                                "frequencies is inherently statistical and is decided by a hypothesis test: per-cell two-sided z-test with |z| <= 7 on cells with "
                                "N p >= 50 plus a pooled rest cell (false-alarm probability < 3e-12 per cell for a fresh seed; deterministic for a fixed VERIF_SEED). "
                                "N = %d per configuration." % N)
    chk.assumptions = ["TLC 1.8", "the sampler's probability_distribution (verified exact by C04/C06) is the input of the pipeline model",
                       "sample_N_outputs is in scope for efficiency 1 and p_dark 0 only (the library documents dark counts as unsupported there and applies the detector as threshold only)"]
    return chk.finish()


def replay_file(path):
    import json
    with open(path) as fh:
        v = json.load(fh)
    sc = v["script"]
    chk = Check(PID, "quick", level="other")
    cfg = next((c for c in QUICK if c[0] == sc["config"]), None)
    if cfg is None:
        det = (Fraction(sc["detector"][0]), Fraction(sc["detector"][1]), sc["detector"][2])
        cfg = (sc["config"], sc["circuit"], det, sc["post_select"], sc["min_detection"])
    one_config(chk, *cfg, sc["N"], sc["seed"])
    chk.rule = "replay of one configuration"
    chk.extra["explanation"] = "replay"
    return chk.finish()
