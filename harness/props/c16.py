"""C16 - process tomography and gate fidelity agree with the library's own references."""
from .. import tlc
from ..common import Check
from . import tomo_common as tc

PID = "C16"
MINE = {"raised", "li_choi", "choi_reference", "li_fidelity", "gate_fidelity", "mle_positive", "mle_tp", "mle_fidelity", "base_changed"}
INV = ["ChoiPinned", "SymmetricAgree", "FidelityBounds"]


def continuous_phase(chk, th):
    """the property quantifies over ARBITRARY single-qubit unitaries: Haar-random ones outside the ring, judged by the same definitions
    (Choi matrix |V>><<V| in the convention TLC pins to the experiments on the ring scope; fidelity formula)"""
    import multiprocessing as mp
    from ..adapters import tomo as ta
    jobs = [(1, k, ("li", "gf", "mle")) for k in range(1500 if th else 160)] + [(2, k, ("li", "gf")) for k in range(400 if th else 40)] \
        + [(2, k, ("mle",)) for k in range(200 if th else 16)]
    with mp.get_context("fork").Pool(12) as pool:
        results = pool.map(ta.continuous_case, jobs, chunksize=4)
    for (nq, k, what), r in zip(jobs, results):
        chk.count(key="cont%d/%d/%s" % (nq, k, "".join(what)))
        if k % 97 == 0:
            chk.sample({"qubits": nq, "process": r.get("desc"), "checked": list(what)})
        for clause, detail in r["findings"]:
            if clause in MINE:
                chk.violation(clause, detail, script={"module": "evaluator (continuous unitaries)", "nq": nq, "case": k, "what": list(what), "V": r.get("V")},
                              sig={"clause": clause, "scope": "continuous"})
    chk.traces_validated += len(jobs)
    chk.add_phase("continuous unitaries (Haar-random, numpy definitions calibrated by the ring scope)", cases=len(jobs))


def run(tier):
    chk = Check(PID, tier)
    th = tier == "thorough"
    chk.rule = ("cases = logical gate programs enumerated by TLC from LwTomo with their exact Choi matrix in the convention the experiments define "
                "(TLC checks tr((rho^T x P) J) = tr(P V rho V^dagger) for all 6^n inputs and 4^n Paulis) and exact gate-fidelity values; the real "
                "LIProcessTomography, GateFidelity and MLEProcessTomography run on the corresponding circuit with the noiseless callback; LI must equal "
                "the exact Choi matrix AND choi_from_unitary(V); MLE must be positive, trace preserving, fidelity >= 0.99; gate fidelity must equal the "
                "formula. non-trivial = complex / non-symmetric V (S, T, Y, SX, CNOT in the program); distinct = distinct programs")
    # model level: the row-major reference is refuted
    wd, res, cex = tc.model(chk, PID, 1, 2, tc.A1, ["RowMajorIsChoi"], dump=False, expect_fail="RowMajorIsChoi")
    chk.add_phase("model-level counterexample: outer(V.flatten(), conj(V.flatten())) is not the experiments' Choi matrix", program=cex)
    tlc.cleanup(PID + "_nq1_g2")
    wd, res, _ = tc.model(chk, PID, 1, 3 if th else 2, tc.A1, INV)
    tc.replay(chk, PID, res, {"nq": 1, "what": ["li", "gf"], "seed": chk.seed}, 1.0, MINE, "1 qubit LI + gate fidelity")
    tc.replay(chk, PID, res, {"nq": 1, "what": ["mle"], "seed": chk.seed}, 1.0 if th else 0.35, MINE, "1 qubit MLE")
    tlc.cleanup(PID + "_nq1_g%d" % (3 if th else 2))
    wd, res, _ = tc.model(chk, PID, 2, 2 if th else 1, tc.A2, INV)
    tc.replay(chk, PID, res, {"nq": 2, "what": ["li", "gf"], "seed": chk.seed, "two_qubit": "ps"}, 0.3 if th else 1.0, MINE, "2 qubits LI + gate fidelity")
    if th:
        tc.replay(chk, PID, res, {"nq": 2, "what": ["mle"], "seed": chk.seed, "two_qubit": "ps"}, 0.08, MINE, "2 qubits MLE")
    tlc.cleanup(PID + "_nq2_g%d" % (2 if th else 1))
    continuous_phase(chk, th)
    chk.assumptions = ["TLC 1.8 + CommunityModules", "MLE quality (eigenvalue >= -1e-8, trace preservation 5e-3 = the order of the library CPTP projection stopping rule, fidelity >= 0.99) is a numeric threshold judged by the harness",
                       "the pseudo-inverse of linear inversion is never computed in TLC: LI is checked through the defining equations of its result"]
    return chk.finish()


def replay_file(path):
    return run("quick")
