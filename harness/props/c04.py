"""C04 - Sampler distribution is normalised, exact and the same for both backends."""
from . import emu_common as ec
from . import circuit_common as cc

PID = "C04"
MINE = {"dist", "dist_norm", "dist_backend_mismatch", "read_raised"}


def run(tier):
    chk = ec.run_reads(PID, tier, {"sdist"}, MINE, ["DistNorm", "SlosEqualsPermanent"],
                       "cases = construction programs of LwCircuit ending in Sampler(...).probability_distribution for every input with <= MaxPhot "
                       "photons, for BOTH back-ends; TLC computes the exact loss-marginalised distribution (invariants DistNorm: non-negative, sums "
                       "to one; SlosEqualsPermanent: the SLOS layer-by-layer transition system equals the permanent formula), the real distributions are compared entry by entry and with each other. non-trivial = at least one construction "
                       "call before the read; distinct = distinct call sequences", nsim=1200)
    cc.trace_phase(chk, PID, "wiring_float_reads", 1600 if tier == "thorough" else 240, "wiring", MINE, numeric=False, reads={"sdist"})
    cc.trace_phase(chk, PID, "components_float_reads", 1600 if tier == "thorough" else 160, "components", MINE, numeric=False, reads={"sdist"})
    return chk.finish()


def replay_file(path):
    return cc.replay_file(PID, path, MINE)
