"""Shared driver for C15 / C16 (LwTomo)."""
from .. import tlc, replay_engine
from ..tlc import MachineryError

A1 = {("H", 0), ("S", 0), ("T", 0), ("X", 0), ("Y", 0), ("SX", 0), ("Z", 0)}
A2 = {("H", 0), ("S", 1), ("T", 0), ("H", 1), ("Y", 1), ("SX", 0), ("CZ", 0), ("CNOT", 1), ("CNOT", 0), ("SWAP", 0)}
MODS = {"LwRing", "LwMatrix", "LwGates", "LwTomo"}


BELL = {("H", 0), ("Y", 1), ("CNOT", 0), ("SX", 0)}      # directed scope: (|01> +- |10>)/sqrt2 and relatives in three gates


def model(chk, pid, nq, maxg, alphabet, invariants, dump=True, expect_fail=None, tag=""):
    name = "nq%d_g%d%s" % (nq, maxg, tag)
    wd = tlc.workdir("%s_%s" % (pid, name))
    tlc.copy_specs(wd, MODS)
    consts = dict(NQ=nq, MaxGates=maxg, Alphabet=alphabet)
    tlc.write_mc(wd, "MC", "LwTomo", consts)
    tlc.write_cfg(wd, "MC", consts, invariants=invariants)
    res = tlc.run(wd, "MC", dump=dump, timeout=3000)
    tlc.require_clean_run(res, "%s %s" % (pid, name))
    chk.add_tlc("LwTomo %s" % name, res, "invariants %s" % list(invariants))
    if expect_fail:
        if not any(v["name"] == expect_fail for v in res.violations):
            raise MachineryError("vacuity: %s is expected to fail in the model" % expect_fail)
        cex = res.violations[0]["trace"][-1].get("gs")
        return wd, res, cex
    for v in res.violations:
        raise MachineryError("LwTomo %s violates %s" % (name, v["name"]))
    return wd, res, None


def replay(chk, pid, res, ctx, frac, mine, tag):
    n = 0
    for r in replay_engine.replay_dump(res.dump, "harness.adapters.tomo", "worker", ctx, frac=frac, seed=chk.seed, batch=10,
                                       keep=lambda t: "out = [" in t):
        if r is None:
            continue
        n += 1
        gs = [tuple(g) for g in r["gs"]]
        chk.count(key=tag + repr(gs) + repr(sorted(ctx["what"])), nontrivial=any(g[0] in ("S", "T", "Y", "SX", "CNOT") for g in gs))
        if n % 37 == 1:
            chk.sample({"qubits": ctx["nq"], "program": gs, "checked": sorted(ctx["what"]), "two-qubit gates as": ctx.get("two_qubit", "ps")})
        for clause, detail in r["findings"]:
            if clause in mine:
                chk.violation(clause, detail, script={"module": "LwTomo", "nq": ctx["nq"], "gs": gs, "what": sorted(ctx["what"]), "two_qubit": ctx.get("two_qubit", "ps")},
                              sig={"clause": clause})
    chk.traces_validated += n
    chk.add_phase("replay " + tag, programs=n, sampled_fraction=frac, checked=sorted(ctx["what"]))
    return n
