"""C01 - a circuit compiles to the ordered product of its components."""
from ..common import Check
from ..tlc import RawTLA
from . import circuit_common as cc

PID = "C01"
MINE = {"valid_call_raised", "U", "unitary", "dim", "leading_block", "n_modes", "compile"}
ALLK = {"bs", "ps", "loss", "bar", "swap", "u"}


def config(name):
    if name == "A2_full_len2":       # every component kind, every ordered mode pair, both conventions, boundary values, rejects
        return cc.consts_of(NUs={2, 3}, Numeric=True, MaxLen=2, MaxRej=1, Kinds=ALLK, BadModes={-1, 99, 90, 91}, Rids={0, 1, 2},
                            Convs={"Rx", "H"}, Lqs={0, 1}, Pids={0, 1, 2, 5}, LossQs={0, 1, 2}, BadVals=True, SwapLevel=3, UIds={"H", "SH", "C3"})
    if name == "A2_core_len3":       # loss interleaved anywhere, H on reversed order, length 3, reduced alphabet
        return cc.consts_of(NUs={3}, Numeric=True, MaxLen=3, Kinds={"bs", "ps", "loss", "swap", "u"}, Rids={1}, Convs={"Rx", "H"},
                            Lqs={0}, Pids={1}, LossQs={1}, SwapLevel=1, UIds={"SH"})
    if name == "A2_len3_4modes":     # thorough
        return cc.consts_of(NUs={4}, Numeric=True, MaxLen=3, Kinds=ALLK, Rids={0, 1}, Convs={"Rx", "H"}, Lqs={0, 1}, Pids={1, 6},
                            LossQs={1, 2}, SwapLevel=2, UIds={"SH", "C3"})
    if name == "A1_struct_len3":     # structure only, full alphabet, numbers by the evaluator during replay
        return cc.consts_of(NUs={3}, Numeric=False, MaxLen=3, MaxRej=1, Kinds=ALLK, BadModes={-1, 99, 90, 91}, Rids={0, 1, 2},
                            Convs={"Rx", "H"}, Lqs={0, 1}, Pids={0, 1, 2, 5}, LossQs={0, 1, 2}, BadVals=True, SwapLevel=3, UIds={"H", "SH", "C3"})
    raise KeyError(name)


NUM_INV = ["UnitaryInv", "DimInv", "SemAgrees"]
PROPS = ["FrameProp", "RejectFrame"]


def run(tier):
    chk = Check(PID, tier)
    chk.rule = ("cases = construction programs: (a) reachable states of LwCircuit (Scenario single) dumped by TLC with expected abstract "
                "circuit and exact transfer matrix, replayed into lightworks; (b) histories recorded from random drivers on real "
                "circuits, validated by LwCircuitTrace. non-trivial = ends in an accepted call (a) / more than 3 calls (b); distinct = "
                "distinct call sequences")
    th = tier == "thorough"
    ctx = {"scenario": "single", "numeric": True}
    cc.dump_phase(chk, PID, "A2_full_len2", config("A2_full_len2"), NUM_INV, PROPS, MINE, 1.0 if th else 0.3, 900, ctx)
    cc.dump_phase(chk, PID, "A2_core_len3", config("A2_core_len3"), NUM_INV, PROPS, MINE, 1.0 if th else 0.4, 900, ctx)
    if th:
        cc.dump_phase(chk, PID, "A2_len3_4modes", config("A2_len3_4modes"), NUM_INV, PROPS, MINE, 0.1, 3000, ctx)
        cc.dump_phase(chk, PID, "A1_struct_len3", config("A1_struct_len3"), ["InputModesInv"], PROPS, MINE, 0.02, 3000,
                      {"scenario": "single", "numeric": False})
    cc.script_phase(chk, PID, "findings", cc.load_corpus(PID), MINE)
    if th:
        cc.repo_tests_phase(chk, PID, MINE, ["tests/sdk/circuit_test.py", "tests/interferometers"])
    cc.trace_phase(chk, PID, "components_ring", 2000 if th else 320, "components", MINE, numeric=True)
    cc.trace_phase(chk, PID, "components_float", 3000 if th else 400, "components", MINE, numeric=False)
    chk.assumptions = ["TLC 1.8 + CommunityModules", "TLA+ value parser", "evaluator ev.py (calibrated against TLC in this run)",
                       "documented component matrices transcribed in LwMatrix.BsBlock / LossBlock from docs/sdk"]
    return chk.finish()


def replay_file(path):
    return cc.replay_file(PID, path, MINE)
