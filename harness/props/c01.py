"""C01 - a circuit compiles to the ordered product of its components."""
import os

from .. import tlc, replay_engine
from ..common import Check
from ..tlc import RawTLA, MachineryError

PID = "C01"
MINE = {"valid_call_raised", "U", "unitary", "dim", "leading_block", "n_modes", "compile"}

BASE = dict(Scenario="single", PNu=3, NObj=1, MaxAnc=0, HeraldNs={0, 1}, Targets={1}, AddPairs=RawTLA("{}"), TmplLoss=False)


def config(name):
    c = dict(BASE)
    if name == "A2_full_len2":       # every component kind, every ordered mode pair, both conventions, boundary values, rejects
        c.update(NUs={2, 3}, Numeric=True, MaxLen=2, MaxRej=1, Kinds={"bs", "ps", "loss", "bar", "swap", "u"},
                 BadModes={-1, 99, 90, 91}, Rids={0, 1, 2}, Convs={"Rx", "H"}, Lqs={0, 1}, Pids={0, 1, 2, 5},
                 LossQs={0, 1, 2}, BadVals=True, SwapLevel=3, UIds={"H", "SH", "C3"})
    elif name == "A2_core_len3":     # loss interleaved anywhere, H on reversed order, length 3, reduced alphabet
        c.update(NUs={3}, Numeric=True, MaxLen=3, MaxRej=0, Kinds={"bs", "ps", "loss", "swap", "u"},
                 BadModes=RawTLA("{}"), Rids={1}, Convs={"Rx", "H"}, Lqs={0}, Pids={1}, LossQs={1},
                 BadVals=False, SwapLevel=1, UIds={"SH"})
    elif name == "A2_len3_4modes":   # thorough
        c.update(NUs={4}, Numeric=True, MaxLen=3, MaxRej=0, Kinds={"bs", "ps", "loss", "swap", "u", "bar"},
                 BadModes=RawTLA("{}"), Rids={0, 1}, Convs={"Rx", "H"}, Lqs={0, 1}, Pids={1, 6}, LossQs={1, 2},
                 BadVals=False, SwapLevel=2, UIds={"SH", "C3"})
    elif name == "A1_struct_len3":   # structure only, full alphabet, numbers by the evaluator during replay
        c.update(NUs={3}, Numeric=False, MaxLen=3, MaxRej=1, Kinds={"bs", "ps", "loss", "bar", "swap", "u"},
                 BadModes={-1, 99, 90, 91}, Rids={0, 1, 2}, Convs={"Rx", "H"}, Lqs={0, 1}, Pids={0, 1, 2, 5},
                 LossQs={0, 1, 2}, BadVals=True, SwapLevel=3, UIds={"H", "SH", "C3"})
    elif name == "A1_struct_len4":   # thorough
        c.update(NUs={3}, Numeric=False, MaxLen=4, MaxRej=1, Kinds={"bs", "ps", "loss", "swap", "u"},
                 BadModes={99}, Rids={0, 1}, Convs={"Rx", "H"}, Lqs={0, 1}, Pids={1, 5},
                 LossQs={1, 2}, BadVals=False, SwapLevel=1, UIds={"SH"})
    return c


def model_and_replay(chk, name, frac, timeout, numeric_invs=True, limit=None):
    consts = config(name)
    wd = tlc.workdir("C01_" + name)
    tlc.copy_specs(wd, {"LwRing", "LwMatrix", "LwCircuitDefs", "LwCircuit"})
    tlc.write_mc(wd, "MC", "LwCircuit", consts)
    invs = ["UnitaryInv", "DimInv", "SemAgrees"] if consts["Numeric"] else ["InputModesInv"]
    tlc.write_cfg(wd, "MC", consts, invariants=invs, properties=["FrameProp", "RejectFrame"])
    res = tlc.run(wd, "MC", dump=True, timeout=timeout)
    tlc.require_clean_run(res, "C01 " + name)
    chk.add_tlc(name, res, "invariants %s, properties FrameProp RejectFrame" % invs)
    for v in res.violations:
        # a model-level violation means the specification itself is inconsistent: machinery problem, not a code defect
        raise MachineryError("specification %s violates %s" % (name, v["name"]))
    ops = replay_engine.count_ops(res.dump)
    missing = [k for k in consts["Kinds"] if ops.get(k, 0) == 0]
    if consts["MaxRej"] > 0 and ops.get("rej", 0) == 0:
        missing.append("rej")
    if missing:
        raise MachineryError("vacuity: actions never taken in %s: %s" % (name, missing))
    ctx = {"scenario": "single", "numeric": bool(consts["Numeric"])}
    n = 0
    calib = 0.0
    for r in replay_engine.replay_dump(res.dump, "harness.adapters.circuit", "dump_worker", ctx, frac=frac, seed=chk.seed, limit=limit):
        n += 1
        calib = max(calib, r["calib"])
        chk.count(key=repr(r["prog"]), nontrivial=len(r["prog"]) > 0 and r["op"] != "rej")
        if n % 997 == 1:
            chk.sample({"config": name, "program": r["prog"]})
        if r["drift"]:
            chk.drift.append(r["drift"])
        for clause, step, detail in r["findings"]:
            if clause in MINE:
                chk.violation(clause, detail, script={"module": "LwCircuit", "config": name, "prog": r["prog"], "step": step},
                              sig={"clause": clause})
    chk.traces_validated += n
    if calib > 1e-12:
        raise MachineryError("evaluator calibration failed on %s: max |ev - TLC| = %.3g" % (name, calib))
    chk.add_phase("replay " + name, programs=n, sampled_fraction=frac, evaluator_calibration_max_err=calib, op_counts=dict(ops))
    exhaustive = frac >= 1.0 and limit is None
    tlc.cleanup("C01_" + name)
    return exhaustive


def run(tier):
    chk = Check(PID, tier)
    chk.rule = ("programs = reachable states of LwCircuit (Scenario single); every dumped state is a construction program with "
                "its expected abstract circuit and exact transfer matrix; non-trivial = program ends in an accepted call; "
                "distinct = distinct call sequences")
    ex = model_and_replay(chk, "A2_full_len2", 1.0 if tier == "thorough" else 0.35, 600)
    model_and_replay(chk, "A2_core_len3", 1.0 if tier == "thorough" else 0.5, 600)
    if tier == "thorough":
        model_and_replay(chk, "A2_len3_4modes", 0.2, 3000)
        model_and_replay(chk, "A1_struct_len3", 0.05, 1800)
    chk.exhaustive = False
    chk.assumptions = ["TLC 1.8 + CommunityModules", "TLA+ value parser", "evaluator ev.py (calibrated against TLC in this run)",
                       "documented component matrices transcribed in LwMatrix.BsBlock/LossBlock from docs/sdk"]
    return chk.finish()
