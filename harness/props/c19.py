"""C19 - any constructible circuit can be displayed, without side effects."""
import itertools

from ..common import Check
from . import circuit_common as cc

PID = "C19"
MINE = {"valid_call_raised", "display_not_rejected", "display_changed"}
PK = ("refl", "phase", "loss")
OKARGS = {(t, dl, sv, lab) for t in ("svg", "mpl") for dl in (False, True) for sv in (False, True) for lab in (99, 0)}
BADARGS = {("png", False, False, 99), ("svg", False, True, 1), ("mpl", True, False, -1), ("SVG", False, False, 0)}
DISP = OKARGS | BADARGS


def config(name):
    par = dict(NPar=3, ParKinds=PK, ParInit=(1, 1, 1), ParVals={0, 1})
    if name == "components":         # every component kind, parameters with and without labels, loss, barriers, unitary blocks, swaps
        return cc.consts_of(**par, NUs={3, 4}, Numeric=False, MaxLen=5, DispMin=2, DispArgs=DISP,
                            Kinds={"bs", "ps", "loss", "bar", "swap", "u", "herald", "display"}, Rids={1, 1001}, Pids={1, 1002}, LossQs={1, 2, 1003},
                            Lqs={0, 1, 2, 1003}, Convs={"Rx", "H"}, SwapLevel=2, UIds={"H", "C3"}, HeraldNs={0, 1})
    if name == "groups":             # plain and heralded groups, nesting depth 2, heralds on any modes, swaps spanning ancillas
        return cc.consts_of(**par, Scenario="tmpl", PNu=4, NObj=3, Targets={1, 2, 3}, AddPairs={(1, 2), (1, 3), (2, 3)}, Numeric=False, MaxLen=7,
                            DispMin=2, DispArgs=DISP, MaxAnc=4, MaxAdds=3, MaxHer=(1, 2, 2), TmplLoss=True, HeraldNs={0, 1}, SwapLevel=1,
                            Kinds={"herald", "add", "swap", "bs", "probeall", "unpack", "display"}, Rids={1001}, Convs={"Rx"}, Lqs={0, 1003}, MaxComp=2)
    if name == "components_x":       # exhaustive rung (model-level: frame condition and outcome table)
        return cc.consts_of(**par, NUs={3}, Numeric=False, MaxLen=3, DispMin=0, DispArgs=DISP,
                            Kinds={"bs", "ps", "loss", "bar", "swap", "u", "herald", "display"}, Rids={1, 1001}, Pids={1, 1002}, LossQs={1, 1003},
                            Lqs={0, 1003}, Convs={"Rx", "H"}, SwapLevel=1, UIds={"H", "C3"}, HeraldNs={1})
    raise KeyError(name)


def ends_in_display(r):
    return bool(r["prog"]) and r["prog"][-1][1] == "display"


def run(tier):
    chk = Check(PID, tier)
    chk.rule = ("cases = construction programs (TLC -simulate behaviours of LwCircuit whose last call is Display with one of the 16 valid option "
                "combinations or one of 4 invalid ones) replayed under MPLBACKEND=Agg; outcome must equal the specification's (drawn / "
                "DisplayError) and the circuit's observable state must not change. non-trivial = ends in a display call; distinct = distinct "
                "call sequences")
    th = tier == "thorough"
    pctx = {"parkinds": PK, "parinit": (1, 1, 1)}
    c = config("components_x")
    wd, res = cc.model_check(chk, PID, "components_x", c, ["InputModesInv"], ["FrameProp", "RejectFrame"], 1800, dump=True)
    import re
    ops = cc.replay_engine.count_ops(res.dump)
    if ops.get("display", 0) == 0:
        raise cc.MachineryError("vacuity: no display action taken")
    n = 0
    for r in cc.replay_engine.replay_dump(res.dump, "harness.adapters.circuit", "dump_worker", dict(pctx, scenario="single", numeric=False),
                                          frac=0.02 if not th else 0.15, seed=chk.seed, keep=lambda t: '"display"' in t):
        n += 1
        cc.handle(chk, r, "components_x", MINE, ends_in_display)
    chk.traces_validated += n
    chk.add_phase("replay of TLC dump components_x", programs=n)
    cc.tlc.cleanup(PID + "_components_x")
    cc.sim_phase(chk, PID, "components", config("components"), MINE, 9000 if th else 1000, 6, dict(pctx, scenario="single", numeric=False),
                 nontrivial_fn=ends_in_display)
    cc.sim_phase(chk, PID, "groups", config("groups"), MINE, 9000 if th else 1000, 8, dict(pctx, scenario="tmpl", numeric=False, pnu=4, tmpl_loss=True),
                 nontrivial_fn=ends_in_display)
    # the smallest constructible circuit (outside LwCircuit's scopes, which start at two modes)
    import lightworks as lw
    from ..common import library_raised
    import matplotlib.pyplot as plt
    for n_modes in (0, 1):
        for t in ("svg", "mpl"):
            chk.count(key="tiny%d%s" % (n_modes, t))
            try:
                lw.Display(lw.Circuit(n_modes), display_type=t)
            except Exception as e:  # noqa: BLE001
                if not library_raised(e):
                    raise
                chk.violation("valid_call_raised", "Display(Circuit(%d), display_type=%r) raised %s: %s" % (n_modes, t, type(e).__name__, e),
                              script={"directed": "Circuit(%d)" % n_modes, "display_type": t},
                              sig={"call": "Display", "n_modes": n_modes, "exception": type(e).__name__})
            finally:
                plt.close("all")
    chk.add_phase("directed: circuits with zero and one mode", cases=4)
    # heralded sub-circuits added in DESCENDING mode order (the later one in front of the earlier group), the earlier one on the host's
    # last modes with its herald on its own last mode; every back-end and option combination
    def sub2(hmode, n=0):
        s_ = lw.Circuit(2); s_.bs(0, 1); s_.ps(hmode, 0.3); s_.herald(n, hmode)
        return s_
    ndir = 0
    for host_n in (2, 3, 4):
        for h_first, h_second in ((1, 0), (1, 1), (0, 0)):
            host = lw.Circuit(host_n)
            host.bs(0, 1)
            try:
                host.add(sub2(h_first, 1), host_n - 1)
                host.add(sub2(h_second), 0)
                if host_n >= 3:
                    host.add(sub2(0), 1, group=True)
                host.U_full
            except Exception:  # noqa: BLE001
                continue
            for t in ("svg", "mpl"):
                for dl in (False, True):
                    ndir += 1
                    chk.count(key="desc-groups%d%d%d%s%s" % (host_n, h_first, h_second, t, dl))
                    try:
                        lw.Display(host, display_type=t, display_loss=dl, mode_labels=["q%d" % i for i in range(host.input_modes)])
                    except Exception as e:  # noqa: BLE001
                        if not library_raised(e):
                            raise
                        chk.violation("valid_call_raised", "Display(%s) of a %d-mode host with heralded sub-circuits added in descending order raised %s: %s"
                                      % (t, host_n, type(e).__name__, e), script={"directed": "descending heralded additions", "host": host_n, "heralds": [h_first, h_second]},
                                      sig={"call": "Display", "directed": "descending_groups"})
                    finally:
                        plt.close("all")
    chk.add_phase("directed: heralded sub-circuits added in descending mode order", cases=ndir)
    chk.assumptions = ["TLC 1.8 + CommunityModules", "the specification says nothing about what the picture looks like; only 'drawn or DisplayError' and 'no side effect'",
                       "matplotlib Agg backend"]
    return chk.finish()


def replay_file(path):
    return cc.replay_file(PID, path, MINE)
