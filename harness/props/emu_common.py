"""Shared driver for the properties decided by the read actions of LwCircuit (C03, C04, C05)."""
from ..common import Check
from ..tlc import RawTLA
from . import circuit_common as cc

PS0 = frozenset()
PS1 = frozenset({((0,), (1,))})                 # exactly one photon on mode 0
PS2 = frozenset({((0, 1), (1,))})               # exactly one photon across modes 0,1
PS3 = frozenset({((0,), (0, 1)), ((1,), (1,))})  # two rules
PSU_ALL = RawTLA("{ {}, {<<<<0>>, <<1>>>>}, {<<<<0, 1>>, <<1>>>>}, {<<<<0>>, <<0, 1>>>>, <<<<1>>, <<1>>>>} }")
PSU_NONE = RawTLA("{{}}")


def configs(reads, psu, maxphot, th):
    single = cc.consts_of(NUs={2, 3}, Numeric=True, MaxLen=3, MaxRej=1, Kinds={"bs", "ps", "loss", "herald", "swap"} | reads,
                          Rids={0, 1}, Convs={"Rx", "H"}, Lqs={0}, Pids={1}, LossQs={1}, SwapLevel=1, HeraldNs={0, 1}, MaxHer=(1,),
                          MaxPhot=maxphot, PSU=psu, DispMin=1)
    single4 = cc.consts_of(NUs={3}, Numeric=True, MaxLen=5, MaxRej=1, Kinds={"bs", "ps", "loss", "herald", "swap", "u"} | reads,
                           Rids={1}, Convs={"Rx", "H"}, Lqs={0, 1}, Pids={1, 3}, LossQs={1}, SwapLevel=2, UIds={"SH", "C3"},
                           HeraldNs={0, 1, 2} if maxphot <= 2 else {0, 1},      # <= 5 photons in all: 7 photons overflow TLC's 32-bit integers (thorough run 2)
                           MaxHer=(2,), MaxPhot=maxphot, PSU=psu, DispMin=2)
    tmpl = cc.consts_of(Scenario="tmpl", NObj=3, Targets={1, 2, 3}, PNu=3, Numeric=True, MaxLen=6, MaxAnc=3, AddPairs={(1, 2), (1, 3), (2, 3)},
                        TmplLoss=True, MaxHer=(1, 2, 1), MaxAdds=2, Kinds={"herald", "add", "probeall"} | reads, Ordered=False,
                        HeraldNs={0, 1}, MaxPhot=min(maxphot, 2), PSU=psu, DispMin=2, MaxRej=0)     # 3 user photons + herald photons + loss lines overflow TLC's 32-bit integers
    bunch = cc.consts_of(NUs={2}, Numeric=True, MaxLen=3, MaxRej=0, Kinds={"bs", "herald"} | reads, Rids={1}, Convs={"Rx", "H"}, Lqs={0, 1},
                         HeraldNs={2}, MaxHer=(1,), MaxPhot=4, PSU=psu, DispMin=1)
    # every mode heralded: zero visible modes, the only input is the empty state
    allher = cc.consts_of(NUs={2}, Numeric=True, MaxLen=4, MaxRej=0, Kinds={"bs", "herald"} | reads, Rids={1}, Convs={"Rx"}, Lqs={0},
                          HeraldNs={0, 1}, MaxHer=(2,), MaxPhot=1, PSU=PSU_NONE, DispMin=3)
    return {"single": single, "single_deep": single4, "tmpl": tmpl, "bunch": bunch, "allher": allher}


def ends_in_read(r):
    return bool(r["prog"]) and r["prog"][-1][1] in ("simulate", "sdist", "analyze", "quick") and len(r["prog"]) > 1


def run_reads(pid, tier, reads, mine, invariants, rule, psu=PSU_NONE, maxphot=2, nsim=1600, frac=0.5, assumptions=()):
    chk = Check(pid, tier)
    chk.rule = rule
    th = tier == "thorough"
    cs = configs(reads, psu, maxphot + (1 if th else 0), th)
    keep = (lambda t: any(('"%s"' % k) in t for k in reads))
    cc.dump_phase(chk, pid, "single", cs["single"], ["UnitaryInv"] + invariants, ["FrameProp", "RejectFrame"], mine, 1.0 if th else frac, 2400,
                  {"scenario": "single", "numeric": True}, keep=keep, nontrivial_fn=ends_in_read)
    if reads & {"simulate", "sdist"}:       # up to 4 photons in one mode (factorials beyond 3!) on the smallest circuits
        cc.dump_phase(chk, pid, "bunch", cs["bunch"], ["UnitaryInv"] + invariants, ["FrameProp"], mine, 1.0, 2400, {"scenario": "single", "numeric": True},
                      keep=keep, nontrivial_fn=ends_in_read)
    cc.dump_phase(chk, pid, "allher", cs["allher"], ["UnitaryInv"] + invariants, ["FrameProp"], mine, 1.0, 1200, {"scenario": "single", "numeric": True},
                  keep=keep, nontrivial_fn=ends_in_read)
    cc.sim_phase(chk, pid, "single_deep", cs["single_deep"], mine, nsim * (6 if th else 1), 6, {"scenario": "single", "numeric": True},
                 nontrivial_fn=ends_in_read)
    cc.sim_phase(chk, pid, "tmpl", cs["tmpl"], mine, nsim * (6 if th else 1), 7, {"scenario": "tmpl", "numeric": True, "pnu": 3, "tmpl_loss": True},
                 nontrivial_fn=ends_in_read)
    chk.assumptions = ["TLC 1.8 + CommunityModules", "exact amplitudes / probabilities in Z[i,sqrt2][1/2] over the discrete parameter alphabet",
                       "comparison tolerance 1e-9 (amplitudes), 1e-9 per truncated state (distributions)"] + list(assumptions)
    return chk
