"""C09 - circuit rewrites preserve the transformation."""
from ..common import Check
from . import circuit_common as cc

PID = "C09"
MINE = {"rewrite_changed", "rewrite_structure", "group_remains", "nonadjacent_remains", "components_grew",
        # after a rewrite the object must still behave as the same circuit under later edits
        "U", "unitary", "dim", "heralds", "input_modes", "n_modes", "ancilla_count", "ancilla_herald", "compile", "valid_call_raised",
        # the rewritten / copied object shares no mutable structure with the original
        "arg_mutated", "frame"}
RW = {"unpack", "compress", "nonadj", "copy"}


def config(name):
    if name == "swaps_len3":         # swap . component . swap sandwiches, reversed-order non-adjacent BS, then every rewrite, then an edit
        return cc.consts_of(NUs={3}, NObj=2, Targets={1, 2}, Numeric=True, MaxLen=3, Kinds={"bs", "ps", "swap", "loss"} | RW, Rids={1}, Convs={"Rx", "H"},
                            Lqs={0}, Pids={1}, LossQs={1}, SwapLevel=2)
    if name == "swap_blockers":      # several swaps with blocking components in between, on 4 modes: every program of <= 4 components + compress
        return cc.consts_of(NUs={4}, NObj=1, Targets={1}, Numeric=True, MaxLen=5, Kinds={"swap", "ps", "compress"}, Pids={1}, Lqs={0}, SwapLevel=1, ModeCap=99)
    if name == "swaps_len3_4":       # thorough: 4 modes
        return cc.consts_of(NUs={4}, NObj=2, Targets={1, 2}, Numeric=True, MaxLen=3, Kinds={"bs", "ps", "swap", "loss"} | RW, Rids={1}, Convs={"Rx", "H"},
                            Lqs={0}, Pids={1}, LossQs={1}, SwapLevel=2)
    if name == "swaps_len5":         # structural, numbers by the evaluator
        return cc.consts_of(NUs={4}, NObj=2, Targets={1, 2}, Numeric=False, MaxLen=5, Kinds={"bs", "ps", "swap", "u"} | RW, Rids={1}, Convs={"H"},
                            Lqs={0, 1}, Pids={1}, SwapLevel=2, UIds={"SH"})
    if name == "groups":             # rewrites of circuits holding plain and heralded groups, then later additions and probes
        return cc.consts_of(Scenario="tmpl", NObj=3, Targets={1, 2, 3}, PNu=4, Numeric=False, MaxLen=6, MaxAnc=3, AddPairs={(1, 2), (1, 3), (2, 3)},
                            TmplLoss=True, MaxHer=(0, 1, 1), MaxAdds=2, Kinds={"herald", "add", "probeall", "unpack", "compress", "nonadj", "swap"},
                            SwapLevel=1, Ordered=False, HeraldNs={0, 1})
    raise KeyError(name)


PROPS = ["FrameProp", "RewriteProp", "NoGroupAfterUnpack", "CopyProp"]


def has_rewrite(r):
    return any(e[1] in RW for e in r["prog"])


def algorithms_phase(chk, th):
    """LwRewrites: the rewrite algorithms themselves, transcribed, model checked on every op list in scope and compared with
    the implementation's output (structure differences are DRIFT, semantic differences violations)"""
    from .. import tlc, replay_engine
    from ..tlc import MachineryError
    mods = {"LwRing", "LwMatrix", "LwCircuitDefs", "LwRewrites"}
    scopes = [("swaps_ps", dict(NU=4, MaxOps=4, Kinds={"swap", "ps"}, Variant="fixed", SwapLevel=1), ["CompressPreserves", "CompressShorter"], 0.35),
              ("bs_grp", dict(NU=4, MaxOps=3, Kinds={"bs", "ps", "swap", "grp"}, Variant="fixed", SwapLevel=1), ["ConvertPreserves", "ConvertAdjacent", "CompressPreserves"], 0.25)]
    if th:
        scopes += [("cycles5", dict(NU=5, MaxOps=3, Kinds={"swap", "ps", "bs"}, Variant="fixed", SwapLevel=2), ["ConvertPreserves", "ConvertAdjacent", "CompressPreserves", "CompressShorter"], 0.02)]
    # the defect F22 at model level: considering an already merged swap again is refuted
    wd = tlc.workdir("C09_rw_f22")
    tlc.copy_specs(wd, mods)
    c = dict(NU=4, MaxOps=4, Kinds={"swap", "ps"}, Variant="merged_twice", SwapLevel=1)
    tlc.write_mc(wd, "MC", "LwRewrites", c)
    tlc.write_cfg(wd, "MC", c, invariants=["CompressPreserves"])
    r = tlc.run(wd, "MC", timeout=900)
    tlc.require_clean_run(r, "C09 LwRewrites merged_twice")
    chk.add_tlc("LwRewrites variant merged_twice (expected to FAIL CompressPreserves)", r)
    if not r.violations:
        raise MachineryError("vacuity: the merged_twice variant of compress_mode_swaps is expected to be refuted")
    tlc.cleanup("C09_rw_f22")
    for name, consts, invs, frac in scopes:
        wd = tlc.workdir("C09_rw_" + name)
        tlc.copy_specs(wd, mods)
        tlc.write_mc(wd, "MC", "LwRewrites", consts)
        tlc.write_cfg(wd, "MC", consts, invariants=invs)
        res = tlc.run(wd, "MC", dump=True, timeout=3000)
        tlc.require_clean_run(res, "C09 LwRewrites " + name)
        for v in res.violations:
            raise MachineryError("LwRewrites %s violates %s: the transcribed algorithm does not preserve the matrix" % (name, v["name"]))
        chk.add_tlc("LwRewrites " + name, res, "invariants %s" % invs)
        n = 0
        for rr in replay_engine.replay_dump(res.dump, "harness.adapters.rewrites", "worker", {"nu": consts["NU"]}, frac=1.0 if th and name != "cycles5" else frac, seed=chk.seed):
            n += 1
            chk.count(key="rw" + repr(rr["ops"]), nontrivial=len(rr["ops"]) >= 2)
            if rr["drift"]:
                chk.drift.append(rr["drift"])
            for clause, detail in rr["findings"]:
                chk.violation(clause, detail, script={"module": "LwRewrites", "nu": consts["NU"], "ops": rr["ops"]}, sig={"clause": clause})
        chk.traces_validated += n
        chk.add_phase("replay LwRewrites " + name, op_lists=n)
        tlc.cleanup("C09_rw_" + name)


def run(tier):
    chk = Check(PID, tier)
    chk.rule = ("cases = construction programs containing unpack_groups / compress_mode_swaps / remove_non_adjacent_bs / copy, followed by "
                "further edits; compared: U_full, heralds, input size before/after each rewrite (1e-9), structure postconditions (no group, no "
                "non-adjacent BS also inside groups, component count not grown), independence of copies, and the final abstract state. "
                "non-trivial = contains a rewrite; distinct = distinct call sequences")
    th = tier == "thorough"
    cc.dump_phase(chk, PID, "swaps_len3", config("swaps_len3"), ["UnitaryInv", "SemAgrees"], PROPS, MINE, 1.0 if th else 0.25, 1800,
                  {"scenario": "single", "numeric": True}, keep=lambda t: any(('"%s"' % k) in t for k in RW), nontrivial_fn=has_rewrite)
    cc.dump_phase(chk, PID, "swap_blockers", config("swap_blockers"), ["UnitaryInv"], PROPS, MINE, 1.0 if th else 0.25, 1800,
                  {"scenario": "single", "numeric": True}, keep=lambda t: '"compress"' in t and t.count('"swap"') >= 3, nontrivial_fn=has_rewrite)
    if th:
        cc.dump_phase(chk, PID, "swaps_len3_4", config("swaps_len3_4"), ["UnitaryInv", "SemAgrees"], PROPS, MINE, 0.2, 3000,
                      {"scenario": "single", "numeric": True}, keep=lambda t: any(('"%s"' % k) in t for k in RW), nontrivial_fn=has_rewrite)
    for name, ctx, n in (("swaps_len5", {"scenario": "single", "numeric": False}, 2400),
                         ("groups", {"scenario": "tmpl", "numeric": False, "pnu": 4, "tmpl_loss": True}, 2400)):
        c = config(name)
        if th:
            small = dict(c, MaxLen=c["MaxLen"] - (2 if name == "groups" else 1))      # groups, 5 calls: > 1e8 states (timed out); 4 calls: 6.1M
            cc.model_check(chk, PID, name, small, ["InputModesInv"], PROPS, 3000, dump=False)
            cc.tlc.cleanup("%s_%s" % (PID, name))
        cc.sim_phase(chk, PID, name, c, MINE, n * (6 if th else 1), 8, ctx, nontrivial_fn=has_rewrite)
    algorithms_phase(chk, th)
    cc.script_phase(chk, PID, "findings", cc.load_corpus(PID), MINE)
    if th:
        cc.repo_tests_phase(chk, PID, MINE, ["tests/sdk/circuit_test.py", "tests/qubit"])
    cc.trace_phase(chk, PID, "rewrites_ring", 2400 if th else 400, "rewrites", MINE, numeric=True)
    cc.trace_phase(chk, PID, "rewrites_float", 2400 if th else 320, "rewrites", MINE, numeric=False)
    cc.trace_phase(chk, PID, "carried_groups_ring", 1600 if th else 320, "carried", MINE, numeric=True)
    chk.assumptions = ["TLC 1.8 + CommunityModules", "rewrites are specified by contract (transformation, heralds, input size preserved + structure "
                       "postconditions), not by transcribing the current algorithms; unpack_groups of a circuit with ancillas is bound to the recorded placement"]
    return chk.finish()


def replay_file(path):
    return cc.replay_file(PID, path, MINE)
