"""C09 - circuit rewrites preserve the transformation."""
from ..common import Check
from . import circuit_common as cc

PID = "C09"
MINE = {"rewrite_changed", "rewrite_structure", "group_remains", "nonadjacent_remains", "components_grew",
        # after a rewrite the object must still behave as the same circuit under later edits
        "U", "unitary", "dim", "heralds", "input_modes", "n_modes", "ancilla_count", "ancilla_herald", "compile", "valid_call_raised",
        # the rewritten / copied object shares no mutable structure with the original
        "arg_mutated", "frame"}
RW = {"unpack", "compress", "nonadj", "copy"}


def config(name):
    if name == "swaps_len3":         # swap . component . swap sandwiches, reversed-order non-adjacent BS, then every rewrite, then an edit
        return cc.consts_of(NUs={3}, NObj=2, Targets={1, 2}, Numeric=True, MaxLen=3, Kinds={"bs", "ps", "swap", "loss"} | RW, Rids={1}, Convs={"Rx", "H"},
                            Lqs={0}, Pids={1}, LossQs={1}, SwapLevel=2)
    if name == "swap_blockers":      # several swaps with blocking components in between, on 4 modes: every program of <= 4 components + compress
        return cc.consts_of(NUs={4}, NObj=1, Targets={1}, Numeric=True, MaxLen=5, Kinds={"swap", "ps", "compress"}, Pids={1}, Lqs={0}, SwapLevel=1, ModeCap=99)
    if name == "swaps_len3_4":       # thorough: 4 modes
        return cc.consts_of(NUs={4}, NObj=2, Targets={1, 2}, Numeric=True, MaxLen=3, Kinds={"bs", "ps", "swap", "loss"} | RW, Rids={1}, Convs={"Rx", "H"},
                            Lqs={0}, Pids={1}, LossQs={1}, SwapLevel=2)
    if name == "swaps_len5":         # structural, numbers by the evaluator
        return cc.consts_of(NUs={4}, NObj=2, Targets={1, 2}, Numeric=False, MaxLen=5, Kinds={"bs", "ps", "swap", "u"} | RW, Rids={1}, Convs={"H"},
                            Lqs={0, 1}, Pids={1}, SwapLevel=2, UIds={"SH"})
    if name == "groups":             # rewrites of circuits holding plain and heralded groups, then later additions and probes
        return cc.consts_of(Scenario="tmpl", NObj=3, Targets={1, 2, 3}, PNu=4, Numeric=False, MaxLen=6, MaxAnc=3, AddPairs={(1, 2), (1, 3), (2, 3)},
                            TmplLoss=True, MaxHer=(0, 1, 1), MaxAdds=2, Kinds={"herald", "add", "probeall", "unpack", "compress", "nonadj", "swap"},
                            SwapLevel=1, Ordered=False, HeraldNs={0, 1})
    raise KeyError(name)


PROPS = ["FrameProp", "RewriteProp", "NoGroupAfterUnpack", "CopyProp"]


def has_rewrite(r):
    return any(e[1] in RW for e in r["prog"])


def run(tier):
    chk = Check(PID, tier)
    chk.rule = ("cases = construction programs containing unpack_groups / compress_mode_swaps / remove_non_adjacent_bs / copy, followed by "
                "further edits; compared: U_full, heralds, input size before/after each rewrite (1e-9), structure postconditions (no group, no "
                "non-adjacent BS also inside groups, component count not grown), independence of copies, and the final abstract state. "
                "non-trivial = contains a rewrite; distinct = distinct call sequences")
    th = tier == "thorough"
    cc.dump_phase(chk, PID, "swaps_len3", config("swaps_len3"), ["UnitaryInv", "SemAgrees"], PROPS, MINE, 1.0 if th else 0.25, 1800,
                  {"scenario": "single", "numeric": True}, keep=lambda t: any(('"%s"' % k) in t for k in RW), nontrivial_fn=has_rewrite)
    cc.dump_phase(chk, PID, "swap_blockers", config("swap_blockers"), ["UnitaryInv"], PROPS, MINE, 1.0 if th else 0.25, 1800,
                  {"scenario": "single", "numeric": True}, keep=lambda t: '"compress"' in t and t.count('"swap"') >= 3, nontrivial_fn=has_rewrite)
    if th:
        cc.dump_phase(chk, PID, "swaps_len3_4", config("swaps_len3_4"), ["UnitaryInv", "SemAgrees"], PROPS, MINE, 0.2, 3000,
                      {"scenario": "single", "numeric": True}, keep=lambda t: any(('"%s"' % k) in t for k in RW), nontrivial_fn=has_rewrite)
    for name, ctx, n in (("swaps_len5", {"scenario": "single", "numeric": False}, 2400),
                         ("groups", {"scenario": "tmpl", "numeric": False, "pnu": 4, "tmpl_loss": True}, 2400)):
        c = config(name)
        if th:
            small = dict(c, MaxLen=c["MaxLen"] - 1)
            cc.model_check(chk, PID, name, small, ["InputModesInv"], PROPS, 3000, dump=False)
            cc.tlc.cleanup("%s_%s" % (PID, name))
        cc.sim_phase(chk, PID, name, c, MINE, n * (6 if th else 1), 8, ctx, nontrivial_fn=has_rewrite)
    cc.script_phase(chk, PID, "findings", cc.load_corpus(PID), MINE)
    if th:
        cc.repo_tests_phase(chk, PID, MINE, ["tests/sdk/circuit_test.py", "tests/qubit"])
    cc.trace_phase(chk, PID, "rewrites_ring", 2400 if th else 400, "rewrites", MINE, numeric=True)
    cc.trace_phase(chk, PID, "rewrites_float", 2400 if th else 320, "rewrites", MINE, numeric=False)
    chk.assumptions = ["TLC 1.8 + CommunityModules", "rewrites are specified by contract (transformation, heralds, input size preserved + structure "
                       "postconditions), not by transcribing the current algorithms; unpack_groups of a circuit with ancillas is bound to the recorded placement"]
    return chk.finish()


def replay_file(path):
    return cc.replay_file(PID, path, MINE)
