"""C15 - state tomography reconstructs the prepared state."""
from .. import tlc
from ..common import Check
from . import tomo_common as tc

PID = "C15"
MINE = {"raised", "protocol", "rho", "fidelity", "base_changed"}


def run(tier):
    chk = Check(PID, tier)
    th = tier == "thorough"
    chk.rule = ("cases = logical gate programs (H, S, T, X, Y, Z, SX on each qubit; CZ, CNOT both ways, SWAP) enumerated by TLC from LwTomo; for each TLC "
                "derives the exact density matrix the PROTOCOL reconstructs (settings {X,Y,Z}^n, I -> Z reuse, Pauli sum) and checks it equals "
                "|psi><psi|; the real StateTomography is run on the corresponding lightworks circuit with a noiseless experiment callback that "
                "verifies what it is asked (one circuit per setting = base + basis changes) and answers from its own permanent. non-trivial = the "
                "program contains S, T, Y, SX or CNOT (states with Y components / entanglement); distinct = distinct programs")
    wd, res, _ = tc.model(chk, PID, 1, 3, tc.A1, ["StateTomoCorrect"])
    tc.replay(chk, PID, res, {"nq": 1, "what": ["state"], "seed": chk.seed}, 1.0 if th else 0.5, MINE, "1 qubit")
    tlc.cleanup(PID + "_nq1_g3")
    wd, res, _ = tc.model(chk, PID, 2, 3 if th else 2, tc.A2, ["StateTomoCorrect"])
    for tq in ("ps", "heralded"):
        tc.replay(chk, PID, res, {"nq": 2, "what": ["state"], "seed": chk.seed, "two_qubit": tq}, (0.2 if th else 0.5) if tq == "ps" else (0.05 if th else 0.12), MINE,
                  "2 qubits (%s two-qubit gates)" % tq)
    tlc.cleanup(PID + "_nq2_g%d" % (3 if th else 2))
    # directed scope: odd-parity Bell states (rank-one density matrices whose fidelity computation is numerically delicate)
    wd, res, _ = tc.model(chk, PID, 2, 3, tc.BELL, ["StateTomoCorrect"], tag="_bell")
    tc.replay(chk, PID, res, {"nq": 2, "what": ["state"], "seed": chk.seed, "two_qubit": "ps"}, 1.0, MINE, "2 qubits, Bell-state scope")
    tlc.cleanup(PID + "_nq2_g3_bell")
    import multiprocessing as mp
    from ..adapters import tomo as ta
    # arbitrary states on n = 1..3 qubits: Haar-random local unitaries around heralded / post-selected entangling gates
    jobs = [(1, k) for k in range(600 if th else 60)] + [(2, k) for k in range(600 if th else 60)] + [(3, k) for k in range(120 if th else 12)]
    with mp.get_context("fork").Pool(12) as pool:
        results = pool.map(ta.continuous_state_case, jobs, chunksize=2)
    for (nq, k), r in zip(jobs, results):
        chk.count(key="cont%d/%d" % (nq, k))
        if k % 53 == 0:
            chk.sample({"qubits": nq, "state": r.get("desc")})
        for clause, detail in r["findings"]:
            if clause in MINE:
                chk.violation(clause, detail, script={"module": "evaluator (continuous states)", "nq": nq, "case": k}, sig={"clause": clause, "scope": "continuous"})
    chk.traces_validated += len(jobs)
    chk.add_phase("continuous states (Haar-random local unitaries, n = 1..3)", cases=len(jobs))
    chk.count(key="bell-regression")
    for clause, detail in ta.bell_regression():
        chk.violation(clause, detail, script={"directed": "odd-parity Bell states, H/X/CNOT, Analyzer frequencies"}, sig={"clause": clause, "case": "odd-parity Bell state"})
    chk.add_phase("directed history (F24)", cases=2)
    chk.assumptions = ["TLC 1.8 + CommunityModules", "noiseless frequencies come from the harness's own permanent on the requested circuit's U_full",
                       "the logical unitary of the lightworks gates is the named one (C13)"]
    return chk.finish()


def replay_file(path):
    return run("quick")
