"""C05 - Simulator, Sampler, Analyzer and QuickSampler tell one consistent story."""
from . import emu_common as ec
from . import circuit_common as cc

PID = "C05"
MINE = {"analyzer", "analyzer_outputs", "performance", "error_rate", "quick", "read_raised"}


def postselection_phase(chk, th):
    """LwPostSelection: the rule object every conditioned read relies on - model checked, every reachable history replayed"""
    from .. import tlc, replay_engine
    from ..tlc import MachineryError
    margs = {(0,), (1,), (0, 1), (1, 2), (0, 2), (1, 1), (-1,)} | ({(2,), (0, -1), (0, 1, 2), (3,), (2, 3)} if th else set())
    cargs = {(0,), (1,), (0, 2), (1, 2), (-1,)} | ({(2,), (0, 1), (1, -1), (3,)} if th else set())
    nm = 4 if th else 3
    for multi in (False, True):
        consts = dict(NModes=nm, MaxPhot=3 if th else 2, MaxRules=3 if (multi and not th) else 3, MaxCalls=3, Multi=multi, ModeArgs=margs, CountArgs=cargs)
        name = "C05_ps_%s" % ("multi" if multi else "single")
        wd = tlc.workdir(name)
        tlc.copy_specs(wd, {"LwPostSelection"})
        tlc.write_mc(wd, "MC", "LwPostSelection", consts)
        tlc.write_cfg(wd, "MC", consts, invariants=["ModesInv", "DisjointInv", "NonNegInv", "OrderIrrelevant"], properties=["Monotone", "RejectFrame"])
        res = tlc.run(wd, "MC", dump=True, timeout=1800)
        tlc.require_clean_run(res, name)
        for v in res.violations:
            raise MachineryError("LwPostSelection violates %s" % v["name"])
        chk.add_tlc("LwPostSelection multi_rules=%s" % multi, res, "invariants ModesInv DisjointInv NonNegInv OrderIrrelevant; action properties Monotone RejectFrame")
        frac = min(1.0, (60000.0 if th else 6000.0) / max(1, res.distinct))
        n = nv = 0
        for r in replay_engine.replay_dump(res.dump, "harness.adapters.postselection", "worker", {"multi": multi, "nmodes": nm, "maxphot": consts["MaxPhot"]},
                                           frac=frac, seed=chk.seed, keep=lambda t: '"validate"' in t):
            n += 1
            h = r["hist"]
            nv += bool(h) and h[-1][1] == "validate"
            chk.count(key="ps%s%r" % (multi, h), nontrivial=len(h) >= 2)
            for clause, detail in r["findings"]:
                chk.violation(clause, detail, script={"module": "LwPostSelection", "multi_rules": multi, "hist": h}, sig={"clause": clause})
        if nv == 0:
            raise MachineryError("vacuity: no validate read replayed for LwPostSelection")
        chk.traces_validated += n
        chk.add_phase("replay LwPostSelection multi_rules=%s" % multi, histories=n, ending_in_validate=nv, sampled_fraction=round(frac, 4))
        tlc.cleanup(name)


def run(tier):
    chk = ec.run_reads(PID, tier, {"analyze", "quick"}, MINE, ["AnalyzeBound", "QuickBound"],
                       "cases = construction programs of LwCircuit ending in Analyzer.analyze / QuickSampler.probability_distribution for every input "
                       "with <= MaxPhot photons x 4 post-selection rule sets x both detector modes; the specification DEFINES both results from the "
                       "sampler distribution (AnalyzerTable, QuickTable) and TLC evaluates them exactly; the real objects must agree (probabilities, "
                       "performance, error rate, renormalised quick distribution) and must work on every circuit the sampler accepts. non-trivial = "
                       "at least one construction call before the read; distinct = distinct call sequences", psu=ec.PSU_ALL, nsim=1600, frac=0.15)
    postselection_phase(chk, tier == "thorough")
    cc.trace_phase(chk, PID, "wiring_float_reads", 1600 if tier == "thorough" else 240, "wiring", MINE, numeric=False, reads={"analyze", "quick"})
    cc.trace_phase(chk, PID, "components_float_reads", 1600 if tier == "thorough" else 160, "components", MINE, numeric=False, reads={"analyze", "quick"})
    return chk.finish()


def replay_file(path):
    return cc.replay_file(PID, path, MINE)
