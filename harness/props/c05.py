"""C05 - Simulator, Sampler, Analyzer and QuickSampler tell one consistent story."""
from . import emu_common as ec
from . import circuit_common as cc

PID = "C05"
MINE = {"analyzer", "analyzer_outputs", "performance", "error_rate", "quick", "read_raised"}


def run(tier):
    chk = ec.run_reads(PID, tier, {"analyze", "quick"}, MINE, ["AnalyzeBound", "QuickBound"],
                       "cases = construction programs of LwCircuit ending in Analyzer.analyze / QuickSampler.probability_distribution for every input "
                       "with <= MaxPhot photons x 4 post-selection rule sets x both detector modes; the specification DEFINES both results from the "
                       "sampler distribution (AnalyzerTable, QuickTable) and TLC evaluates them exactly; the real objects must agree (probabilities, "
                       "performance, error rate, renormalised quick distribution) and must work on every circuit the sampler accepts. non-trivial = "
                       "at least one construction call before the read; distinct = distinct call sequences", psu=ec.PSU_ALL, nsim=1600, frac=0.15)
    cc.trace_phase(chk, PID, "wiring_float_reads", 1600 if tier == "thorough" else 240, "wiring", MINE, numeric=False, reads={"analyze", "quick"})
    cc.trace_phase(chk, PID, "components_float_reads", 1600 if tier == "thorough" else 160, "components", MINE, numeric=False, reads={"analyze", "quick"})
    return chk.finish()


def replay_file(path):
    return cc.replay_file(PID, path, MINE)
