"""C02 - adding a sub-circuit wires it in order; heralded modes become private ancillas."""
from ..common import Check
from ..tlc import RawTLA
from . import circuit_common as cc

PID = "C02"
MINE = {"valid_call_raised", "U", "unitary", "dim", "leading_block", "n_modes", "compile", "heralds", "ancilla_count",
        "ancilla_herald", "input_modes"}
PAIRS2 = {(1, 2), (1, 3)}
PAIRS3 = {(1, 2), (1, 3), (2, 3)}
K = {"herald", "add", "probeall", "edit"}


def config(name):
    base = dict(Scenario="tmpl", NObj=3, Targets={1, 2, 3}, Kinds=K, Ordered=True, HeraldNs={0, 1})
    if name == "A2_num_len4":        # exact matrices in every state; one herald per sub-circuit, two additions, loss inside templates
        return cc.consts_of(**base, PNu=3, Numeric=True, MaxLen=4, MaxAnc=3, AddPairs=PAIRS2, TmplLoss=True, MaxHer=(0, 1, 1), MaxAdds=2)
    if name == "A2_num_len5":        # thorough: two heralds on the 3-line template
        return cc.consts_of(**base, PNu=3, Numeric=True, MaxLen=5, MaxAnc=3, AddPairs=PAIRS2, TmplLoss=True, MaxHer=(0, 2, 1), MaxAdds=2)
    if name == "A1_struct":          # all (in,out) herald pairs, both declaration orders, two additions, probes, later edits
        return cc.consts_of(**base, PNu=3, Numeric=False, MaxLen=7, MaxAnc=4, AddPairs=PAIRS2, TmplLoss=True, MaxHer=(0, 2, 1), MaxAdds=2)
    if name == "A1_nested":          # nesting: template(2) into template(3) into the parent; 4-mode parent
        return cc.consts_of(**base, PNu=4, Numeric=False, MaxLen=7, MaxAnc=4, AddPairs=PAIRS3, TmplLoss=False, MaxHer=(0, 1, 1), MaxAdds=3)
    if name == "A1_wide":            # a 5-line sub-circuit with three heralds added across the ancilla of an earlier 3-line one
        return cc.consts_of(**base, PNu=4, TNu=(5, 3), Numeric=False, MaxLen=8, MaxAnc=4, AddPairs=PAIRS2, TmplLoss=False, MaxHer=(0, 3, 1), MaxAdds=2)
    if name == "A1_ublock":          # sub-circuits holding a 3-line unitary block, added across the ancilla of an earlier addition
        return cc.consts_of(**base, PNu=4, TNu=(3, 3), TmplU=True, Numeric=False, MaxLen=7, MaxAnc=4, AddPairs=PAIRS3, TmplLoss=False, MaxHer=(0, 1, 1), MaxAdds=3)
    if name == "A1_struct_q":        # quick rungs of the two structural scopes
        return cc.consts_of(**base, PNu=3, Numeric=False, MaxLen=5, MaxAnc=4, AddPairs=PAIRS2, TmplLoss=True, MaxHer=(0, 2, 1), MaxAdds=2)
    if name == "A1_nested_q":
        return cc.consts_of(**base, PNu=4, Numeric=False, MaxLen=5, MaxAnc=4, AddPairs=PAIRS3, TmplLoss=False, MaxHer=(0, 1, 1), MaxAdds=3)
    raise KeyError(name)


def addpos_config(name):
    """scopes of LwAddPos (the positional add algorithm refined against the abstract Add)"""
    base = dict(MaxAnc=4, HeraldNs={0, 1}, TmplLoss=False)
    if name == "two_heralds":        # both declaration orders and every (in, out) pair of two heralds on the 3-line template, two additions
        return dict(base, PNu=4, TNu=(3, 2), MaxLen=4, AddPairs={(1, 2), (1, 3)}, MaxHer=(0, 2, 1), MaxAdds=2)
    if name == "nested":             # template(2) into template(3) into the parent
        return dict(base, PNu=3, TNu=(3, 2), MaxLen=4, AddPairs=PAIRS3, MaxHer=(0, 1, 1), MaxAdds=3)
    if name == "full_len4":          # thorough: everything of the two above at once on a 4-mode parent
        return dict(base, PNu=4, TNu=(3, 2), MaxLen=4, AddPairs=PAIRS3, MaxHer=(0, 2, 1), MaxAdds=3)
    if name == "deep":               # -simulate only: three heralds, three additions, probes
        return dict(base, PNu=4, TNu=(3, 2), MaxLen=7, AddPairs=PAIRS3, MaxHer=(0, 2, 1), MaxAdds=3)
    if name == "deep_wide":          # -simulate only: a 5-line template with three heralds
        return dict(base, PNu=4, TNu=(5, 3), MaxLen=8, AddPairs=PAIRS3, MaxHer=(0, 3, 1), MaxAdds=3)
    raise KeyError(name)


PROPS_S = ["FrameProp", "RejectFrame", "AncillaPrivate"]
PROPS_N = PROPS_S + ["UnitaryStep", "SemAgreesStep"]


def onto_ancilla(r):
    """non-trivial: at least one addition onto a parent that already owns an ancilla"""
    seen = False
    for e in r["prog"]:
        if e[1] == "add" and e[0] == "ok":
            if seen:
                return True
            seen = True
    return False


def run(tier):
    chk = Check(PID, tier)
    chk.rule = ("cases = programs 'declare heralds on marked sub-circuits, add them (grouped or not, nested or not) to a marked parent, "
                "probe every user mode, edit the sub-circuits afterwards': (a) TLC dump / TLC -simulate behaviours of LwCircuit replayed "
                "into lightworks and compared modulo the ancilla bijection, (b) recorded random histories validated by LwCircuitTrace. "
                "non-trivial = contains an accepted add after an earlier accepted add (a) / an accepted add (b); distinct = distinct call sequences")
    th = tier == "thorough"
    ctxl = {"scenario": "tmpl", "numeric": True, "pnu": 3, "tmpl_loss": True}
    cc.dump_phase(chk, PID, "A2_num_len4", config("A2_num_len4"), ["InputModesInv"], PROPS_N, MINE, 1.0 if th else 0.12, 1200, ctxl,
                  keep=lambda t: '"add"' in t, nontrivial_fn=onto_ancilla)
    if th:
        cc.dump_phase(chk, PID, "A2_num_len5", config("A2_num_len5"), ["InputModesInv"], PROPS_N, MINE, 0.05, 3600, ctxl,
                      keep=lambda t: '"add"' in t, nontrivial_fn=onto_ancilla)
    for name, pnu, loss in (("A1_struct", 3, True), ("A1_nested", 4, False)):
        c = config(name if th else name + "_q")      # exhaustive structural check: smaller rung in the quick tier
        wd, res = cc.model_check(chk, PID, name if th else name + "_q", c, ["InputModesInv"], PROPS_S, 3000, dump=False)
        cc.tlc.cleanup("%s_%s" % (PID, name if th else name + "_q"))
        c = config(name)                              # behaviours for replay are always drawn from the full scope
        cc.sim_phase(chk, PID, name, c, MINE, 16000 if th else 2400, 9, {"scenario": "tmpl", "numeric": False, "pnu": pnu, "tmpl_loss": loss},
                     nontrivial_fn=onto_ancilla)
    cc.sim_phase(chk, PID, "A1_wide", config("A1_wide"), MINE, 12000 if th else 2000, 9,
                 {"scenario": "tmpl", "numeric": False, "pnu": 4, "tnu": (5, 3), "tmpl_loss": False}, nontrivial_fn=onto_ancilla)
    cc.sim_phase(chk, PID, "A1_ublock", config("A1_ublock"), MINE, 9000 if th else 1500, 9,
                 {"scenario": "tmpl", "numeric": False, "pnu": 4, "tnu": (3, 3), "tmpl_loss": "u"}, nontrivial_fn=onto_ancilla)
    pctx = {"scenario": "tmpl", "numeric": False, "pnu": 4, "tnu": (3, 2), "tmpl_loss": False}
    cc.addpos_phase(chk, PID, "addpos_two_heralds", addpos_config("two_heralds"), MINE, 0.3 if th else 0.02, 8000 if th else 1200,
                    addpos_config("deep"), 8, pctx, nontrivial_fn=onto_ancilla)
    cc.addpos_phase(chk, PID, "addpos_nested", addpos_config("nested"), MINE, 0.3 if th else 0.02, 8000 if th else 800,
                    addpos_config("deep_wide"), 9, dict(pctx, pnu=3), nontrivial_fn=onto_ancilla,
                    variants=("unpinned", "nointcount"))      # "nocascade" needs two heralds on one sub-circuit: refuted in the scope above
    if th:
        cc.addpos_phase(chk, PID, "addpos_full_len4", addpos_config("full_len4"), MINE, 0.1, 0, None, 0, pctx, nontrivial_fn=onto_ancilla)
    cc.script_phase(chk, PID, "findings", cc.load_corpus(PID), MINE)
    cc.repo_tests_phase(chk, PID, MINE, ["tests/sdk/circuit_test.py"] + (["tests/qubit", "tests/interferometers", "tests/sdk/display_test.py", "tests/tomography"] if th else []))
    cc.trace_phase(chk, PID, "wiring_ring", 2400 if th else 400, "wiring", MINE, numeric=True)
    cc.trace_phase(chk, PID, "wiring_float", 2400 if th else 320, "wiring", MINE, numeric=False)
    chk.assumptions = ["TLC 1.8 + CommunityModules", "TLA+ value parser", "evaluator ev.py (calibrated against TLC in this run)",
                       "ancilla / loss lines are anonymous: conformance is modulo a herald-preserving bijection of hidden modes"]
    return chk.finish()


def replay_file(path):
    return cc.replay_file(PID, path, MINE)
