"""C03 - Simulator amplitudes are the bosonic Fock-space amplitudes of the circuit."""
from . import emu_common as ec
from . import circuit_common as cc

PID = "C03"
MINE = {"amplitude", "sim_outputs", "input_not_rejected", "read_raised"}


def run(tier):
    chk = ec.run_reads(PID, tier, {"simulate"}, MINE, ["SimUnit"],
                       "cases = construction programs of LwCircuit (plain circuits with loss and user-level heralds; marked templates added with "
                       "heralds, nested) ending in Simulator.simulate(input) for every input with <= MaxPhot photons (incl. bunched, vacuum) and two "
                       "invalid inputs; TLC computes the exact permanent-based amplitude table in the ring, the real Simulator's array is compared "
                       "entry by entry. non-trivial = at least one construction call before the read; distinct = distinct call sequences", nsim=1600)
    cc.trace_phase(chk, PID, "wiring_float_reads", 1600 if tier == "thorough" else 240, "wiring", MINE, numeric=False, reads={"simulate"})
    cc.trace_phase(chk, PID, "components_float_reads", 1600 if tier == "thorough" else 160, "components", MINE, numeric=False, reads={"simulate"})
    return chk.finish()


def replay_file(path):
    return cc.replay_file(PID, path, MINE)
