"""C03 - Simulator amplitudes are the bosonic Fock-space amplitudes of the circuit."""
from . import emu_common as ec
from . import circuit_common as cc

PID = "C03"
MINE = {"amplitude", "sim_outputs", "input_not_rejected", "read_raised"}


def run(tier):
    chk = ec.run_reads(PID, tier, {"simulate"}, MINE, ["SimUnit"],
                       "cases = construction programs of LwCircuit (plain circuits with loss and user-level heralds; marked templates added with "
                       "heralds, nested) ending in Simulator.simulate(input) for every input with <= MaxPhot photons (incl. bunched, vacuum) and two "
                       "invalid inputs; TLC computes the exact permanent-based amplitude table in the ring, the real Simulator's array is compared "
                       "entry by entry. non-trivial = at least one construction call before the read; distinct = distinct call sequences", nsim=1600)
    cc.trace_phase(chk, PID, "wiring_float_reads", 1600 if tier == "thorough" else 240, "wiring", MINE, numeric=False, reads={"simulate"})
    cc.trace_phase(chk, PID, "components_float_reads", 1600 if tier == "thorough" else 160, "components", MINE, numeric=False, reads={"simulate"})
    directed_small_step(chk)
    return chk.finish()


def directed_small_step(chk):
    """one long-lived Simulator, a Parameter moved by 2e-7 between two calls: the second answer is that of the CURRENT circuit
    (compared with a fresh Simulator and with the evaluator's permanent at 1e-12 / 1e-9)"""
    import math
    import numpy as np
    import lightworks as lw
    from lightworks import emulator as emu
    from .. import ev
    from ..common import library_raised
    for k, (ins, outs) in enumerate((((1, 0, 1), None), ((1, 1, 0), [(0, 1, 1), (2, 0, 0), (1, 1, 0)]), ((2, 0, 0), None))):
        p = lw.Parameter(0.3)
        c = lw.Circuit(3)
        c.bs(0, 1); c.ps(1, p); c.bs(0, 1); c.bs(1, 2, reflectivity=0.4); c.ps(2, 0.9); c.bs(0, 2, convention="H")
        sim = emu.Simulator(c)
        chk.count(key="small-step%d" % k)
        try:
            o = None if outs is None else [lw.State(list(x)) for x in outs]
            sim.simulate(lw.State(list(ins)), o)
            p.set(0.3 + 2e-7)
            r2 = sim.simulate(lw.State(list(ins)), o)
            rf = emu.Simulator(c).simulate(lw.State(list(ins)), o)
        except Exception as e:  # noqa: BLE001
            if not library_raised(e):
                raise
            chk.violation("read_raised/simulate/%s" % type(e).__name__, "simulate on a long-lived Simulator raised %s: %s" % (type(e).__name__, e), {"directed": "small step"}, {"clause": "read_raised"})
            continue
        U = c.U_full
        worst = 0.0
        for j, st in enumerate(r2.outputs):
            worst = max(worst, abs(r2.array[0, j] - ev.amplitude(U, list(ins), list(st.s))))
        if [tuple(s.s) for s in r2.outputs] != [tuple(s.s) for s in rf.outputs] or np.abs(r2.array - rf.array).max() > 1e-12 or worst > 1e-9:
            chk.violation("amplitude", "a long-lived Simulator, after a Parameter moved by 2e-7, returns amplitudes that differ from a fresh Simulator's by %.3g "
                          "(from the permanent of the current matrix by %.3g)" % (float(np.abs(r2.array - rf.array).max()) if r2.array.shape == rf.array.shape else float("nan"), worst),
                          {"directed": "small step", "input": list(ins)}, {"clause": "amplitude", "directed": "small_step"})
    chk.add_phase("directed history: one Simulator across a parameter step of 2e-7", cases=3)


def replay_file(path):
    return cc.replay_file(PID, path, MINE)
