"""C12 - qiskit conversion preserves the circuit's unitary, or refuses."""
from .. import tlc, replay_engine
from ..common import Check
from ..tlc import MachineryError

PID = "C12"


def model(chk, nq, maxg, rule, allow, expect_ok, dump):
    name = "nq%d_g%d_%s_%s" % (nq, maxg, rule, "ps" if allow else "nops")
    wd = tlc.workdir("C12_" + name)
    tlc.copy_specs(wd, {"LwConverter"})
    consts = dict(NQ=nq, MaxGates=maxg, Rule=rule, AllowPS=allow)
    tlc.write_mc(wd, "MC", "LwConverter", consts)
    tlc.write_cfg(wd, "MC", consts, invariants=["Safe", "RefusesProp", "NoPSWhenDisallowed"])
    res = tlc.run(wd, "MC", dump=dump, timeout=1800)
    tlc.require_clean_run(res, "C12 " + name)
    chk.add_tlc("LwConverter " + name, res, "invariants Safe RefusesProp NoPSWhenDisallowed; expected %s" % ("to hold" if expect_ok else "Safe to FAIL (rule of the pinned tree)"))
    cex = None
    if res.violations:
        tr = res.violations[0]["trace"]
        cex = {"invariant": res.violations[0]["name"], "gates": tr[-1].get("gates"), "ps": tr[-1].get("ps"), "counts": tr[-1].get("cnt")}
    if expect_ok and res.violations:
        raise MachineryError("LwConverter %s violates %s: %s" % (name, res.violations[0]["name"], cex))
    if not expect_ok and not res.violations:
        raise MachineryError("vacuity: the pinned rule is expected to violate Safe in the model")
    return wd, res, cex


def replay(chk, wd, res, nq, allow, frac, tag, two_qubit_only=False):
    ctx = {"nq": nq, "allow_ps": allow, "seed": chk.seed}
    n = 0
    for r in replay_engine.replay_dump(res.dump, "harness.adapters.converter", "worker", ctx, frac=frac, seed=chk.seed, batch=20,
                                       keep=lambda t: "/\\ pc = 1" in t and '/\\ phase = "build"' not in t and not (two_qubit_only and '"cc' in t)):
        n += 1
        multi3 = any(len(g[1]) == 3 for g in r["gates"])
        chk.count(key=tag + repr(r["gates"]) + str(allow), nontrivial=len(r["gates"]) >= 2)
        if n % 97 == 1:
            chk.sample({"qubits": nq, "allow_post_selection": allow, "gates (with random single-qubit gates)": r["desc"], "model refuses": r["refused_model"]})
        if r["drift"]:
            chk.drift.append(r["drift"])
        for clause, detail in r["findings"]:
            chk.violation(clause, detail, script={"module": "LwConverter", "nq": nq, "allow_ps": allow, "gates": r["gates"], "circuit": r["desc"]},
                          sig={"clause": clause, "three_qubit_gate": multi3})
    chk.traces_validated += n
    chk.add_phase("replay " + tag, sequences=n, sampled_fraction=frac)


def run(tier):
    chk = Check(PID, tier)
    chk.rule = ("cases = sequences of multi-qubit gates (cx in both orientations, cz, swap, ccx with every target, ccz; any qubits) enumerated by TLC from "
                "LwConverter with their decisions (heralded / post-selected / refused), each dressed with seeded random single-qubit gates and "
                "rotations, built as a qiskit QuantumCircuit and converted; the accepted amplitudes on all dual-rail basis inputs must be one scalar "
                "times qiskit's unitary and no accepted output may lie outside the qubit subspace. non-trivial = at least two multi-qubit gates; "
                "distinct = distinct gate sequences x mode")
    th = tier == "thorough"
    # model level: rule of the pinned tree refuted, repaired rule proved on the bounded scope
    wd, res, cex = model(chk, 3, 3, "any", True, False, False)
    chk.add_phase("model-level counterexample for the rule 'at least one fresh qubit'", counterexample=cex)
    tlc.cleanup("C12_nq3_g3_any_ps")
    for nq, maxg, frac in ((3, 3, 0.06 if not th else 0.5), (4, 3 if th else 2, 0.05 if not th else 0.01)):
        for allow in (True, False):
            wd, res, _ = model(chk, nq, maxg, "nm1", allow, True, True)
            replay(chk, wd, res, nq, allow, frac if allow else frac / 2, "nq%d_g%d_%s" % (nq, maxg, "ps" if allow else "nops"))
            tlc.cleanup("C12_nq%d_g%d_nm1_%s" % (nq, maxg, "ps" if allow else "nops"))
    # five qubits: gates between qubits at distance 4 (routing through three intermediate qubits); two-qubit gates only, post-selected variant
    wd, res, _ = model(chk, 5, 2 if th else 1, "nm1", True, True, True)
    replay(chk, wd, res, 5, True, 0.05 if th else 1.0, "nq5_ps", two_qubit_only=True)
    tlc.cleanup("C12_nq5_g%d_nm1_ps" % (2 if th else 1))
    if th:
        model(chk, 4, 4, "nm1", True, True, False)
        tlc.cleanup("C12_nq4_g4_nm1_ps")
    chk.assumptions = ["TLC 1.8", "qiskit.quantum_info.Operator supplies the reference unitary (little-endian ordering handled in the adapter)",
                       "abstract photon-count semantics: a post-selected gate may output ANY redistribution of its photons among its pairs (over-approximation)"]
    return chk.finish()


def replay_file(path):
    import json
    from ..adapters import converter as cv
    with open(path) as fh:
        v = json.load(fh)
    sc = v["script"]
    chk = Check(PID, "quick")
    st = {"gates": [(g[0], tuple(g[1])) for g in sc["gates"]], "ps": [], "rules": [], "refused": False}
    for seed in range(3):
        r = cv.worker(st, {"nq": sc["nq"], "allow_ps": sc["allow_ps"], "seed": seed})
        chk.count(key=seed)
        for clause, detail in r["findings"]:
            chk.violation(clause, detail, script=sc, sig={"clause": clause})
    chk.rule = "replay of one gate sequence"
    return chk.finish()
