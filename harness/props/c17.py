"""C17 - result containers index consistently and mappings conserve weight."""
from .. import tlc, replay_engine
from ..common import Check
from ..tlc import MachineryError

PID = "C17"


def run(tier):
    chk = Check(PID, tier)
    th = tier == "thorough"
    chk.rule = ("cases = reachable states of LwResults: every ordered choice of <= MaxOut distinct output states on M modes x 1-2 inputs x every sequence "
                "of <= 2 threshold / parity mappings (plain or inverted), for probability-, amplitude- and counts-typed results; each is built as a "
                "real SimulationResult / SamplingResult, all access paths compared and the mappings applied and compared with TLC's image-and-merge "
                "result. non-trivial = at least one mapping applied; distinct = distinct (content, mapping sequence, type)")
    for typ, m, maxout, frac in (("probability", 2, 3, 0.5), ("probability", 3, 2, 0.15), ("counts", 2, 3, 0.4), ("probability_amplitude", 2, 2, 1.0)):
        if th:
            frac = 1.0
        name = "%s_m%d" % (typ, m)
        wd = tlc.workdir("C17_" + name)
        tlc.copy_specs(wd, {"LwResults"})
        consts = dict(M=m, MaxPh=2, MaxOut=maxout + (1 if th and m == 2 else 0), MaxMaps=2, Typ=typ)
        tlc.write_mc(wd, "MC", "LwResults", consts)
        tlc.write_cfg(wd, "MC", consts, invariants=["OutputsDistinct", "AfterMapBinary"], properties=["TotalsKept", "Idempotent"])
        res = tlc.run(wd, "MC", dump=True, timeout=1200)
        tlc.require_clean_run(res, "C17 " + name)
        for v in res.violations:
            raise MachineryError("LwResults %s violates %s" % (name, v["name"]))
        chk.add_tlc("LwResults " + name, res, "invariants OutputsDistinct AfterMapBinary; properties TotalsKept Idempotent")
        n = 0
        for r in replay_engine.replay_dump(res.dump, "harness.adapters.results", "worker", {"typ": typ}, frac=frac, seed=chk.seed):
            n += 1
            chk.count(key=repr(r["case"]), nontrivial=len(r["case"][2]) > 0)
            if n % 1999 == 1:
                chk.sample({"inputs": r["case"][0], "outputs": r["case"][1], "mappings": r["case"][2], "type": typ})
            for clause, detail in r["findings"]:
                chk.violation(clause, detail, script={"module": "LwResults", "case": r["case"]}, sig={"clause": clause})
        chk.traces_validated += n
        chk.add_phase("replay " + name, cases=n, sampled_fraction=frac)
        tlc.cleanup("C17_" + name)
    # the state without modes (every mode of a circuit heralded) is a state like any other: the three routes agree on it
    import numpy as np
    import lightworks as lw
    from lightworks.emulator.results import SimulationResult
    e0 = lw.State([])
    for typ, val in (("probability", 0.25), ("probability_amplitude", 0.5 + 0.5j), ("probability", 0.0)):
        r0 = SimulationResult(np.array([[val]]), typ, inputs=[e0], outputs=[e0])
        chk.count(key="empty-state/%s/%r" % (typ, val))
        try:
            got = (r0[e0, e0], r0[e0][e0], r0.array[0, 0])
        except Exception as e_:  # noqa: BLE001
            got = ("raised %s" % type(e_).__name__,)
        if len(got) != 3 or any(not np.isscalar(g) or abs(g - val) > 0 for g in got):
            chk.violation("index", "result with the zero-mode state as input and output: pair / nested / array give %s, built from %r" % (list(map(str, got)), val),
                          script={"directed": "zero-mode state", "type": typ}, sig={"clause": "index", "directed": "empty_state"})
    chk.add_phase("directed: the zero-mode state as input and output", cases=3)
    chk.assumptions = ["TLC 1.8 + CommunityModules", "precondition of the property: input and output lists hold distinct states"]
    return chk.finish()


def replay_file(path):
    import json
    from ..adapters import results as ra
    chk = Check(PID, "quick")
    chk.rule = "replay is performed by re-running the quick tier (cases are enumerated, not random)"
    return run("quick")
