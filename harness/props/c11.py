"""C11 - results depend only on the current configuration, not on history."""
import multiprocessing as mp
import os

from .. import tlc
from ..common import Check
from ..tlc import MachineryError

PID = "C11"


FEATS = {
    "sampler_a": {"circuit", "edit", "param", "input", "source", "backend"},
    "sampler_b": {"circuit", "input", "shared_source", "shared_detector"},
    "quick_a": {"circuit", "edit", "param", "input", "pnr"},
    "quick_b": {"circuit", "input", "ps", "pnr"},
    "analyzer": {"analyzer_ps"},
    # focused alphabets: few kinds of reconfiguration, so that behaviours of depth 14 revisit the same setting many times
    "sampler_c": {"param", "input"},
    "sampler_d": {"circuit", "shared_detector"},
    "sampler_e": {"circuit", "input", "imperfect"},
    "quick_c": {"ps"},
    "quick_d": {"param", "pnr"},
}


def model(chk, kind, variant, mutate, expect_ok, timeout=900, feat="sampler_a"):
    """exhaustive TLC run of one mechanism variant; returns the counterexample history (list of calls) if Fresh/AnalysisOwn fails"""
    name = "%s_%s_%s%s" % (kind, feat, variant, "_mut" if mutate else "")
    wd = tlc.workdir("C11_" + name)
    tlc.copy_specs(wd, {"LwCache"})
    consts = dict(Kind=kind, Variant=variant, MutatePS=mutate, Feat=FEATS[feat])
    tlc.write_mc(wd, "MC", "LwCache", consts)
    tlc.write_cfg(wd, "MC", consts, properties=["Fresh", "AnalysisOwn"])
    res = tlc.run(wd, "MC", timeout=timeout)
    tlc.require_clean_run(res, "C11 " + name)
    chk.add_tlc("LwCache %s (all interleavings, no depth bound)" % name, res, "properties Fresh, AnalysisOwn; expected %s" % ("to hold" if expect_ok else "to FAIL (mechanism of the pinned tree)"))
    cex = None
    if res.violations:
        cex = [st["last"] for st in res.violations[0]["trace"] if "last" in st][1:]
    if expect_ok and res.violations:
        raise MachineryError("LwCache %s: the repaired mechanism violates %s: %s" % (name, res.violations[0]["name"], cex))
    if not expect_ok and not res.violations:
        raise MachineryError("LwCache %s: vacuity - the pinned mechanism is expected to violate Fresh in the model" % name)
    return wd, cex


def replay(chk, kind, variant, mutate, n, depth, feat):
    from ..adapters import cache as ca
    wd, _ = model(chk, kind, variant, mutate, True, feat=feat)
    simdir = os.path.join(wd, "sim")
    os.makedirs(simdir)
    r2 = tlc.run(wd, "MC", workers=8, timeout=900, simulate="file=%s/tr,num=%d" % (simdir, max(1, n // 8)), depth=depth, seed=chk.seed % (2 ** 31))
    if r2.rc != 0:        # once seen on a heavily loaded machine: retry once before giving up
        import shutil
        shutil.rmtree(simdir, ignore_errors=True)
        os.makedirs(simdir)
        r2 = tlc.run(wd, "MC", workers=4, timeout=900, simulate="file=%s/tr,num=%d" % (simdir, max(1, n // 4)), depth=depth, seed=chk.seed % (2 ** 31))
    if r2.rc != 0:
        raise MachineryError("LwCache simulate failed (rc %s, timed out %s): %s" % (r2.rc, r2.timed_out, r2.out[-800:]))
    paths = [(os.path.join(simdir, f), kind) for f in sorted(os.listdir(simdir))]
    cnt = 0
    with mp.get_context("fork").Pool(16) as pool:
        for r in pool.imap_unordered(ca.sim_worker, paths, chunksize=20):
            cnt += 1
            reads = [s for s in r["script"] if s[0] in ("read_dist", "sample", "sample_n_in", "sample_n_out", "analyze")]
            chk.count(key=kind + repr(r["script"]), nontrivial=len(reads) >= 2 and len(r["script"]) > len(reads))
            if cnt % 400 == 1:
                chk.sample({"object": kind, "history": r["script"]})
            for clause, step, detail, sig in r["findings"]:
                chk.violation(clause, detail, script={"module": "LwCache", "kind": kind, "calls": r["script"]}, sig=sig)
    chk.traces_validated += cnt
    chk.add_phase("LwCache %s behaviours replayed on a long-lived real object vs freshly created objects" % kind, behaviours=cnt, depth=depth)
    tlc.cleanup("C11_%s_%s_%s%s" % (kind, feat, variant, "_mut" if mutate else ""))


def directed_truncation(chk):
    """a distribution whose truncated tail (more than a dozen outputs below 1e-9) makes it sum to 1 - 2e-8: sampling must not change
    what probability_distribution reports (read / sample_N_inputs / read on one object, against a fresh object)"""
    import numpy as np
    import lightworks as lw
    from lightworks import emulator as emu
    from scipy.linalg import expm
    n = 10
    U = expm(1j * 3e-5 * (np.ones((n, n)) - np.eye(n)))
    ins = [1, 1, 1] + [0] * 7
    s = emu.Sampler(lw.Unitary(U), lw.State(ins))
    p0 = dict(s.probability_distribution)
    chk.count(key="directed-truncation")
    try:
        r1 = s.sample_N_inputs(400000, seed=1)
        p1 = dict(s.probability_distribution)
        r2 = s.sample_N_inputs(400000, seed=1)
    except Exception as e:  # noqa: BLE001
        from ..common import library_raised
        if not library_raised(e):
            raise
        chk.violation("raised/sample_n_in", "sample_N_inputs raised %s: %s" % (type(e).__name__, e), script={"directed": "truncated tail"}, sig={"call": "sampler.sample_n_in"})
        return
    fresh = dict(emu.Sampler(lw.Unitary(U), lw.State(ins)).probability_distribution)
    if p1 != fresh or p1 != p0:
        d = max(abs(p1[k] - fresh.get(k, 0.0)) for k in p1)
        chk.violation("stale/sampler/read_dist", "after sample_N_inputs the long-lived sampler reports a distribution that differs from a fresh object's by %.3g "
                      "(history: read, sample_N_inputs, read; 10-mode near-identity unitary, 3 photons, distribution sums to %.10f)" % (d, sum(p0.values())),
                      script={"directed": "truncated tail", "history": ["read_dist", "sample_n_in", "read_dist"]}, sig={"call": "sampler.read_dist", "directed": "truncation"})
    if dict(r1) != dict(r2):
        chk.violation("stale/sampler/sample_n_in", "the same seed gave different samples before and after the first sampling call", script={"directed": "truncated tail"},
                      sig={"call": "sampler.sample_n_in", "directed": "truncation"})
    chk.add_phase("directed history: distribution with a truncated tail (sums to 1 - 2e-8)", sum=sum(p0.values()))
    # the same situation with outcomes that are actually drawn (seven weakly coupled modes: hops of probability 1e-5): a seeded call is
    # reproducible on the re-normalising path too, whatever other users of the global generators did in between
    U7 = expm(1j * 3.9e-3 * (np.ones((7, 7)) - np.eye(7)))
    s7 = emu.Sampler(lw.Unitary(U7), lw.State([1, 1, 1, 0, 0, 0, 0]))
    tot7 = sum(s7.probability_distribution.values())
    chk.count(key="directed-truncation-seed")
    ra = dict(s7.sample_N_inputs(600000, seed=5))
    np.random.random(3)
    rb = dict(s7.sample_N_inputs(600000, seed=5))
    if ra != rb:
        chk.violation("stale/sampler/sample_n_in", "sample_N_inputs(seed=5) on a distribution summing to %.10f gave two different results (%d outcomes differ)"
                      % (tot7, sum(1 for k in set(ra) | set(rb) if ra.get(k) != rb.get(k))), script={"directed": "truncated tail, seeded"},
                      sig={"call": "sampler.sample_n_in", "directed": "truncation_seed"})


def directed_failed_recalculation(chk):
    """read; a reconfiguration whose calculation RAISES (circuit with another number of modes before the input is updated); read again twice:
    the object must keep refusing (or answer for the current settings), never hand back the previous distribution; then the input is
    corrected and the answer must be the fresh object's"""
    import lightworks as lw
    from lightworks import emulator as emu
    c3 = lw.Circuit(3); c3.bs(0, 1); c3.ps(1, 0.4); c3.bs(1, 2, reflectivity=0.3); c3.bs(0, 1)
    c4 = lw.Circuit(4); c4.bs(0, 1); c4.bs(2, 3); c4.ps(2, 0.9); c4.bs(1, 2); c4.bs(0, 1, reflectivity=0.2)
    for kind in ("sampler", "quick"):
        mk = (lambda c, s: emu.Sampler(c, s)) if kind == "sampler" else (lambda c, s: emu.QuickSampler(c, s))
        obj = mk(c3, lw.State([1, 0, 1]))
        first = dict(obj.probability_distribution)
        obj.circuit = c4
        chk.count(key="failed-recalc/" + kind)
        answers = []
        for attempt in range(2):
            try:
                answers.append(dict(obj.probability_distribution))
            except Exception:  # noqa: BLE001
                answers.append(None)
        try:
            sampled = obj.sample_N_outputs(20, seed=1) if kind == "sampler" else obj.sample_N_outputs(20, seed=1)
        except Exception:  # noqa: BLE001
            sampled = None
        script = {"directed": "failed recalculation", "object": kind, "history": ["read", "circuit = 4-mode circuit (input still has 3 modes)", "read", "read", "sample_N_outputs"]}
        if any(a is not None and a == first for a in answers) or (sampled is not None and all(len(s) == 3 for s in dict(sampled))):
            chk.violation("stale/%s/read_dist" % kind, "after a reconfiguration whose calculation raised, the long-lived %s answers with the distribution of the PREVIOUS "
                          "configuration (answers: %s)" % (kind, ["raised" if a is None else "previous distribution" if a == first else "other" for a in answers]),
                          script, sig={"call": "%s.read_dist" % kind, "directed": "failed_recalculation"})
            continue
        obj.input_state = lw.State([1, 0, 1, 0])
        got = dict(obj.probability_distribution)
        ref = dict(mk(c4, lw.State([1, 0, 1, 0])).probability_distribution)
        if set(got) != set(ref) or any(abs(got[k] - ref[k]) > 1e-12 for k in ref):
            chk.violation("stale/%s/read_dist" % kind, "after the input was corrected the long-lived %s differs from a fresh object" % kind, script,
                          sig={"call": "%s.read_dist" % kind, "directed": "failed_recalculation"})
    chk.add_phase("directed history: a reconfiguration whose calculation raises, then further reads", objects=2)


def directed_earlier_result(chk):
    """an analysis result contains only quantities computed by that call: a result obtained earlier must not change when the same Analyzer
    (circuit re-parameterised / re-assigned, same table shape) is used again"""
    import numpy as np
    import lightworks as lw
    from lightworks import emulator as emu
    par = lw.Parameter(0.3)
    c1 = lw.Circuit(4); c1.bs(0, 1); c1.ps(1, par); c1.bs(0, 1); c1.bs(1, 2, reflectivity=0.4); c1.bs(2, 3); c1.loss(0, 0.1)
    c2 = lw.Circuit(4); c2.bs(2, 3); c2.bs(1, 2); c2.ps(2, 1.3); c2.bs(0, 1, reflectivity=0.7); c2.loss(3, 0.2)
    ins = [lw.State([1, 0, 1, 0]), lw.State([2, 0, 0, 0])]
    an = emu.Analyzer(c1)
    r1 = an.analyze(ins)
    keep = np.array(r1.array).copy()
    pairs = {(i, j): r1[a, o] for i, a in enumerate(r1.inputs) for j, o in enumerate(r1.outputs)}
    chk.count(key="earlier-result")
    for step, change in (("a Parameter of the circuit was changed", lambda: par.set(1.9)), ("another circuit of the same size was assigned", lambda: setattr(an, "circuit", c2))):
        change()
        an.analyze(ins)
        now = np.array(r1.array)
        bad_pairs = [k for k, v in pairs.items() if abs(r1[r1.inputs[k[0]], r1.outputs[k[1]]] - v) > 0 or abs(now[k] - v) > 0]
        if now.shape != keep.shape or np.abs(now - keep).max() > 0 or bad_pairs:
            chk.violation("analysis_own", "a result returned by an earlier analyze() call changed after %s and analyze() was called again on the same Analyzer "
                          "(array deviation %.3g)" % (step, float(np.abs(now - keep).max()) if now.shape == keep.shape else float("nan")),
                          script={"directed": "earlier result", "history": ["analyze", step, "analyze", "look at the first result again"]},
                          sig={"call": "Analyzer.analyze", "directed": "earlier_result"})
            break
    chk.add_phase("directed history: an earlier analysis result after later analyze() calls on the same Analyzer")


def directed_inplace_edits(chk):
    """long-lived emulator objects across IN-PLACE changes of what they were given (no setter is called, so only a comparison of the
    current configuration can notice): (a) single-shot Sampler.sample() after the input / a Parameter changed, with no other read in
    between - deterministic circuits, so one shot decides; (b) an Analyzer whose circuit gains a loss element (same mode count, same
    photon number: the set of possible outputs grows by the states with fewer photons); (c) the same after a rule was added to its
    PostSelection object in place. Each read is compared with a freshly created object."""
    import lightworks as lw
    from lightworks import emulator as emu
    # (a)
    par = lw.Parameter(1.0)
    c = lw.Circuit(2); c.bs(0, 1, reflectivity=par)          # reflectivity 1: photons stay, 0: they cross
    s = emu.Sampler(c, lw.State([1, 0]))
    hist = []
    for step, change, want in (("first shot", lambda: None, (1, 0)), ("input_state = |0,1>", lambda: setattr(s, "input_state", lw.State([0, 1])), (0, 1)),
                               ("Parameter.set(0)", lambda: par.set(0.0), (1, 0)), ("input_state = |1,0>", lambda: setattr(s, "input_state", lw.State([1, 0])), (0, 1)),
                               ("Parameter.set(1)", lambda: par.set(1.0), (1, 0))):
        change()
        hist.append(step)
        chk.count(key="inplace-sample/" + step)
        try:
            got = tuple(s.sample().s)
        except Exception as e:  # noqa: BLE001
            chk.violation("raised/sample", "Sampler.sample() raised %s: %s" % (type(e).__name__, e), script={"directed": "single shots", "history": list(hist)}, sig={"call": "sampler.sample"})
            break
        if got != want:
            chk.violation("stale/sampler/sample", "Sampler.sample() after %s (no other read in between) returned %s; the circuit is deterministic and a fresh Sampler "
                          "returns %s" % (step, got, want), script={"directed": "single shots", "history": list(hist)}, sig={"call": "sampler.sample", "directed": "single_shot"})
            break
    # (b), (c)
    for what in ("loss element added to the circuit", "rule added to the PostSelection object"):
        c2 = lw.Circuit(2); c2.bs(0, 1, reflectivity=0.3)
        ps = lw.PostSelection()
        an = emu.Analyzer(c2)
        an.post_selection = ps
        ins = lw.State([1, 1])
        an.analyze(ins)
        if what.startswith("loss"):
            c2.loss(0, 0.4)
        else:
            ps.add(0, 1)
        chk.count(key="inplace-analyzer/" + what)
        try:
            r = an.analyze(ins)
            fresh = emu.Analyzer(c2)
            fresh.post_selection = ps
            rf = fresh.analyze(ins)
        except Exception as e:  # noqa: BLE001
            chk.violation("raised/analyze", "Analyzer.analyze raised %s: %s after a %s" % (type(e).__name__, e, what), script={"directed": "in-place edit", "what": what},
                          sig={"call": "Analyzer.analyze", "directed": "inplace"})
            continue
        a = {tuple(o.s): float(r[ins, o]) for o in r.outputs}
        b = {tuple(o.s): float(rf[ins, o]) for o in rf.outputs}
        if set(a) != set(b) or any(abs(a[k] - b[k]) > 1e-12 for k in b) or abs(r.performance - rf.performance) > 1e-12:
            chk.violation("stale/analyzer/analyze", "a long-lived Analyzer after a %s: outputs %s performance %.6f, a fresh Analyzer gives %s performance %.6f"
                          % (what, sorted(a.items()), r.performance, sorted(b.items()), rf.performance), script={"directed": "in-place edit", "what": what},
                          sig={"call": "Analyzer.analyze", "directed": "inplace"})
    chk.add_phase("directed histories: in-place edits (single shots after input / Parameter changes; Analyzer after its circuit gained a loss element / its rules a member)")


def run(tier):
    chk = Check(PID, tier)
    chk.rule = ("cases = behaviours of LwCache (reconfigurations: reassign / edit circuit in place / shared Parameter / input / source / backend / "
                "post-selection object or its rules in place / detector mode; reads: probability_distribution, sample, sample_N_inputs, "
                "sample_N_outputs; Analyzer.analyze with / without expected) replayed on ONE long-lived real object; after every read its answer is "
                "compared with a freshly created object with the same settings. non-trivial = at least two reads with a reconfiguration in "
                "between; distinct = distinct histories")
    th = tier == "thorough"
    # model level: the mechanism of the pinned tree is refuted, the repaired mechanism is proved on the complete state graph
    for kind, feat in (("sampler", "sampler_a"), ("quick", "quick_a"), ("analyzer", "analyzer")):
        wd, cex = model(chk, kind, "pinned", False, False, feat=feat)
        chk.add_phase("model-level counterexample for the pinned %s mechanism" % kind, history=cex)
        tlc.cleanup("C11_%s_%s_pinned" % (kind, feat))
    n = 3000 if th else 480
    replay(chk, "sampler", "fixed", False, n, 14, "sampler_a")
    replay(chk, "sampler", "fixed", False, n, 14, "sampler_b")
    replay(chk, "quick", "fixedps", True, n, 14, "quick_a")
    replay(chk, "quick", "fixedps", True, n, 14, "quick_b")
    replay(chk, "sampler", "fixed", False, n, 14, "sampler_c")
    replay(chk, "sampler", "fixed", False, n, 14, "sampler_d")
    replay(chk, "sampler", "fixed", False, n, 14, "sampler_e")
    replay(chk, "quick", "fixedps", True, n, 14, "quick_c")
    replay(chk, "quick", "fixedps", True, n, 14, "quick_d")
    replay(chk, "analyzer", "fixed", False, 200 if th else 64, 8, "analyzer")
    directed_truncation(chk)
    directed_failed_recalculation(chk)
    directed_earlier_result(chk)
    directed_inplace_edits(chk)
    chk.assumptions = ["TLC 1.8", "the world of the replay: two 3-mode lossy circuits that differ only in their herald photon number, one shared Parameter, "
                       "one PostSelection object; 'same distribution' = same keys and values to 1e-12, same seeded samples"]
    return chk.finish()


def replay_file(path):
    import json
    from ..adapters import cache as ca
    with open(path) as fh:
        v = json.load(fh)
    chk = Check(PID, "quick")
    sc = v["script"]
    # rebuild pseudo-states from the call list
    cfg = {"circ": "A", "inp": 1, "br": 1, "be": 1, "ps": 0, "pnr": 1, "src": 0, "det": 0}
    states = [{"cfg": dict(cfg), "last": ("init", 0)}]
    keymap = {"set_circuit": "circ", "set_input": "inp", "set_source": "br", "set_backend": "be", "set_ps": "ps", "set_pnr": "pnr",
              "use_shared_source": "src", "use_shared_detector": "det"}
    for name, arg in sc["calls"]:
        if name in keymap:
            cfg[keymap[name]] = arg
        states.append({"cfg": dict(cfg), "last": (name, arg)})
    f, script = ca.replay_behaviour(states, sc["kind"])
    for clause, step, detail, sig in f:
        chk.violation(clause, detail, script=sc, sig=sig)
    chk.count("replay")
    chk.rule = "replay of one recorded failing history"
    return chk.finish()
