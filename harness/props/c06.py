"""C06 - imperfect-source model: normalised mixture of distinguishable photon groups."""
import itertools
import math
import multiprocessing as mp
import random
from fractions import Fraction

import numpy as np

from .. import tlc, tlaval, ev
from ..common import Check
from ..tlc import MachineryError

PID = "C06"
F = Fraction

# circuits with dyadic-rational probabilities (50:50 couplers, phases multiples of pi/2, loss 1/2): abstract records
CIRCS = {
    "hom2": {"nu": 2, "anc": (), "hord": (), "ops": (("bs", (1, 2), (1, "Rx")),)},
    "lossy3": {"nu": 3, "anc": (), "hord": (), "ops": (("bs", (1, 2), (1, "Rx")), ("ps", (2,), 2), ("bs", (2, 3), (1, "H")), ("loss", (1,), 1))},
    # the same network with a photon-carrying herald whose input and output modes differ: the herald photon comes from the same imperfect
    # source; the distribution is over all modes, so the specification is the un-heralded record with the FULL input
    "her3": {"nu": 3, "anc": (), "hord": (), "ops": (("bs", (1, 2), (1, "Rx")), ("ps", (2,), 2), ("bs", (2, 3), (1, "H")), ("loss", (1,), 1)),
             "herald": (1, 2, 1)},
    "wide5": {"nu": 5, "anc": (), "hord": (), "ops": (("bs", (1, 2), (1, "Rx")), ("bs", (2, 3), (1, "H")), ("bs", (3, 4), (1, "Rx")), ("bs", (4, 5), (1, "H")),
                                                   ("ps", (3,), 2), ("bs", (2, 3), (1, "Rx")), ("loss", (5,), 1))},
    "lossy3b": {"nu": 3, "anc": (), "hord": (), "ops": (("bs", (3, 1), (1, "H")), ("bs", (1, 2), (1, "Rx")), ("loss", (2,), 1), ("perm", (1, 2, 3), (2, 3, 1)))},
}


def build_real(rec):
    import lightworks as lw
    c = lw.Circuit(rec["nu"])
    for kind, lines, par in rec["ops"]:
        if kind == "bs":
            c.bs(lines[0] - 1, lines[1] - 1, reflectivity={0: 0.0, 1: 0.5, 2: 1.0}[par[0]], convention=par[1])
        elif kind == "ps":
            c.ps(lines[0] - 1, par * math.pi / 4)
        elif kind == "loss":
            c.loss(lines[0] - 1, {0: 0.0, 1: 0.5, 2: 1.0}[par])
        elif kind == "perm":
            c.mode_swaps({a - 1: b - 1 for a, b in zip(lines, par)})
    return c


def purity_of(x):
    return 1 - 2 * x / (1 + x) ** 2


def group_key(grp0, singles, nm):
    """physical content of an emission pattern: the multiset of group occupation vectors"""
    groups = []
    if any(grp0):
        groups.append(tuple(grp0))
    for m in singles:
        groups.append(tuple(1 if i + 1 == m else 0 for i in range(nm)))
    return tuple(sorted(groups))


def key_of_state(s, nm):
    """same key for a State (all photons indistinguishable) or an AnnotatedState (labels)"""
    from lightworks.emulator.state import AnnotatedState
    if isinstance(s, AnnotatedState):
        labs = {}
        for m, mode in enumerate(s):
            for lab in mode:
                labs.setdefault(lab, [0] * nm)[m] += 1
        return tuple(sorted(tuple(v) for v in labs.values()))
    occ = tuple(s.s)
    return (occ,) if any(occ) else ()


def exact_model(chk, tag, rec, ins, nu, x, pi):
    wd = tlc.workdir("C06_" + tag)
    tlc.copy_specs(wd, {"LwRing", "LwMatrix", "LwFock", "LwCircuitDefs", "LwEmuDefs", "LwSource"})
    consts = dict(Circ=rec, In=tuple(ins), Nu=(nu.numerator, nu.denominator), X=(x.numerator, x.denominator), Pi=(pi.numerator, pi.denominator))
    tlc.write_mc(wd, "MC", "LwSource", consts)
    tlc.write_cfg(wd, "MC", consts, invariants=["OutNormalised", "WeightOk", "PerfectIsIdeal", "ZeroIndistClassical"])
    res = tlc.run(wd, "MC", dump=True, timeout=900, workers=8)
    tlc.require_clean_run(res, "C06 " + tag)
    for v in res.violations:
        raise MachineryError("LwSource config %s violates %s" % (tag, v["name"]))
    nterm = len(ins) and sum(ins) + 2
    out = {}
    inputs = {}
    total = Fraction(0)
    for st in tlaval.parse_dump(res.dump):
        if st["idx"] == sum(ins) + 2:
            wgt = Fraction(st["w"][0], st["w"][1])
            total += wgt
            k = group_key(st["grp0"], st["singles"], rec["nu"])
            inputs[k] = inputs.get(k, Fraction(0)) + wgt
            od = st["out"] if isinstance(st["out"], dict) else {}
            for pat, q in od.items():
                out[tuple(pat)] = out.get(tuple(pat), Fraction(0)) + wgt * Fraction(q[0], q[1])
    if total != 1 or sum(out.values()) != 1:
        raise MachineryError("LwSource %s: weights sum to %s, output to %s" % (tag, total, sum(out.values())))
    chk.add_tlc("LwSource " + tag, res, "every emission pattern; ASSUME TableSumsToOne, G2IsOneMinusPurity; invariants OutNormalised PerfectIsIdeal ZeroIndistClassical")
    tlc.cleanup("C06_" + tag)
    return inputs, out


# ---- evaluator for continuous source parameters: the SAME definition with floats ----
def ev_source(rec, ins, nu, purity, indist):
    nm = rec["nu"]
    U = ev.sem(rec)
    n_full = U.shape[0]
    if purity < 1:
        g2 = 1 - purity
        b = 2 * (1 - 1 / g2)
        p1 = 1 - (-b - math.sqrt(b * b - 4)) / 2
    else:
        p1 = 1.0
    p2 = 1 - p1
    pi = math.sqrt(indist)
    pd = 1 - pi
    table = [(1 - nu * (p1 + p2 * nu + 2 * (1 - nu) * p2), 0, 0), (pi * nu * (p1 + (1 - nu) * p2), 1, 0), (pd * nu * (p1 + (1 - nu) * p2), 0, 1),
             (nu * (1 - nu) * p2, 0, 1), (nu * nu * pi * p2, 1, 1), (nu * nu * pd * p2, 0, 2)]
    cache = {}

    def gdist(occ):
        if occ in cache:
            return cache[occ]
        n = sum(occ)
        full_in = list(occ) + [0] * (n_full - nm)
        d = {}
        for o in ev.fock_basis(n_full, n):
            p = abs(ev.amplitude(U, full_in, o)) ** 2
            if p > 0:
                d[o[:nm]] = d.get(o[:nm], 0.0) + p
        cache[occ] = d
        return d
    photons = ev.expand(ins)
    out = {}
    for combo in itertools.product(range(6), repeat=len(photons)):
        wgt = 1.0
        g0 = [0] * nm
        singles = []
        for o, m in zip(combo, photons):
            wgt *= table[o][0]
            if table[o][1]:
                g0[m] += 1
            singles += [m] * table[o][2]
        if wgt == 0:
            continue
        acc = gdist(tuple(g0))
        for m in singles:
            d = gdist(tuple(1 if i == m else 0 for i in range(nm)))
            new = {}
            for a, pa in acc.items():
                for b_, pb in d.items():
                    k = tuple(x_ + y for x_, y in zip(a, b_))
                    new[k] = new.get(k, 0.0) + pa * pb
            acc = new
        for k, p in acc.items():
            out[k] = out.get(k, 0.0) + wgt * p
    return out


def thresholded(exact_in, t):
    """probability_threshold: input patterns below the threshold are dropped and the rest renormalised"""
    kept = {k: v for k, v in exact_in.items() if v >= t}
    tot = sum(kept.values())
    return {k: v / tot for k, v in kept.items()}


def compare_real(chk, name, rec, ins, nu, purity, indist, exact_in, exact_out, tol=1e-9, threshold=None):
    """exceptions raised below a lightworks frame are violations (the source / sampler failed on a legal configuration)"""
    from ..common import library_raised
    try:
        return _compare_real(chk, name, rec, ins, nu, purity, indist, exact_in, exact_out, tol, threshold)
    except Exception as e:  # noqa: BLE001
        if not library_raised(e):
            raise
        return chk.violation("raised", "%s: %s: %s (input %s, brightness %s, purity %s, indistinguishability %s)" % (name, type(e).__name__, e, list(ins), nu, purity, indist),
                             {"module": "LwSource", "config": name, "circuit": rec, "input": list(ins), "brightness": str(nu), "purity": str(purity), "indistinguishability": str(indist)},
                             {"call": "Source/Sampler", "clause": "raised"})


def _compare_real(chk, name, rec, ins, nu, purity, indist, exact_in, exact_out, tol=1e-9, threshold=None):
    import lightworks as lw
    from lightworks import emulator as emu
    c = build_real(rec)
    user_ins = list(ins)
    if rec.get("herald"):
        hi, ho, hn = rec["herald"]
        c.herald(hn, hi, ho)
        if ins[hi] != hn:
            raise MachineryError("grid input %s does not carry the herald photon" % (ins,))
        user_ins = [v for i, v in enumerate(ins) if i != hi]
    src = emu.Source(brightness=float(nu), purity=float(purity), indistinguishability=float(indist))
    if threshold is not None:
        src.probability_threshold = float(threshold)
    script = {"module": "LwSource", "config": name, "circuit": rec, "input": list(ins), "brightness": str(nu), "purity": str(purity), "indistinguishability": str(indist)}
    sig = {"call": "Source/Sampler"}
    bad = 0
    if exact_in is not None:
        stats = src._build_statistics(lw.State(list(ins)))
        got = {}
        for s, p in stats.items():
            k = key_of_state(s, rec["nu"])
            got[k] = got.get(k, 0.0) + p
        if abs(sum(stats.values()) - 1) > 1e-9:
            bad += chk.violation("input_norm", "%s: source input statistics sum to %.12f" % (name, sum(stats.values())), script, sig)
        for k in set(got) | set(exact_in):
            if abs(got.get(k, 0.0) - float(exact_in.get(k, 0))) > tol:
                bad += chk.violation("input_statistics", "%s: P(emission pattern %s) = %.9g, specification %.9g" % (name, k, got.get(k, 0.0), float(exact_in.get(k, 0))), script, sig)
                break
    if exact_out is None:
        return bad
    for b in ("permanent", "slos"):
        d = emu.Sampler(c, lw.State(user_ins), source=src, backend=b).probability_distribution
        got = {tuple(s.s): p for s, p in d.items()}
        if abs(sum(got.values()) - 1) > 1e-7:
            bad += chk.violation("output_norm", "%s: %s output distribution sums to %.9f" % (name, b, sum(got.values())), script, sig)
        for k in set(got) | set(exact_out):
            if abs(got.get(k, 0.0) - float(exact_out.get(k, 0))) > 1e-8:
                bad += chk.violation("output_distribution", "%s: %s backend P(%s) = %.9g, mixture-of-groups value %.9g" % (name, b, k, got.get(k, 0.0), float(exact_out.get(k, 0))), script, sig)
                break
    return bad


GRID_Q = [("hom2", (1, 1)), ("hom2", (2, 0)), ("lossy3", (1, 0, 1)), ("lossy3b", (1, 1, 0)), ("lossy3", (0, 1, 0)), ("hom2", (0, 0)), ("her3", (1, 1, 0))]
GRID_T = GRID_Q + [("her3", (0, 1, 1)), ("her3", (2, 1, 0)), ("lossy3", (2, 1, 0)), ("lossy3", (1, 1, 1)), ("lossy3b", (0, 2, 1)), ("hom2", (2, 1))]


def run(tier):
    chk = Check(PID, tier)
    th = tier == "thorough"
    rng = random.Random(chk.seed)
    params = [(F(1), F(0), F(1)), (F(1, 2), F(0), F(1)), (F(1), F(1, 3), F(1)), (F(1), F(0), F(1, 2)), (F(1), F(0), F(0)), (F(1, 2), F(1, 3), F(1, 2)),
              (F(3, 4), F(1, 7), F(3, 4)), (F(3, 4), F(0), F(1))]
    calib = 0.0
    for cname, ins in (GRID_T if th else GRID_Q):
        plist = params if th else [params[0], params[1], params[5], rng.choice(params[2:5]), params[4], params[7]]
        if sum(ins) <= 1 and not th:
            plist = [params[5], params[2]]         # few-photon inputs: imperfect purity / brightness must still show
        for nu, x, pi in plist:
            name = "%s_%s_nu%s_x%s_pi%s" % (cname, "".join(map(str, ins)), nu, x, pi)
            name = name.replace("/", "o")
            rec = CIRCS[cname]
            exact_in, exact_out = exact_model(chk, name, rec, ins, nu, x, pi)
            purity, indist = purity_of(x), pi * pi
            chk.count(key=name, nontrivial=(nu, x, pi) != (1, 0, 1))
            chk.sample({"circuit": cname, "input": ins, "brightness": str(nu), "purity": str(purity), "indistinguishability": str(indist),
                        "emission patterns": len(exact_in), "output states": len(exact_out)})
            compare_real(chk, name, rec, ins, nu, purity, indist, exact_in, exact_out)
            # probability_threshold: the kept input patterns, renormalised (the output mixture of the kept patterns is C04's business)
            if len(exact_in) > 2:
                ws = sorted(set(exact_in.values()))
                t = (ws[0] + ws[1]) / 2 if len(ws) > 1 else None
                if t is not None and t > 0:
                    chk.count(key=name + "/threshold")
                    chk.extra["probability_threshold_cases"] = chk.extra.get("probability_threshold_cases", 0) + 1
                    compare_real(chk, name + "_thr", rec, ins, nu, purity, indist, thresholded(exact_in, t), None, threshold=t)
                    # a threshold exactly ON a weight keeps that input ("below the threshold" is removed); exact binary fractions only
                    t2 = ws[1]
                    if float(t2) == t2.numerator / t2.denominator and (t2.denominator & (t2.denominator - 1)) == 0 and purity == 1 and indist == 1:
                        compare_real(chk, name + "_thr_eq", rec, ins, nu, purity, indist, thresholded(exact_in, t2), None, threshold=t2)
            # calibration of the evaluator on the rational grid
            e = ev_source(rec, ins, float(nu), float(purity), float(indist))
            for k in set(e) | set(exact_out):
                calib = max(calib, abs(e.get(k, 0.0) - float(exact_out.get(k, 0))))
            # model-level theorems on the aggregated exact distribution
            if cname == "hom2" and tuple(ins) == (1, 1) and nu == 1 and x == 0:
                if exact_out.get((1, 1), F(0)) != (1 - indist) / 2:
                    raise MachineryError("specification: HOM coincidence %s != (1 - indistinguishability)/2" % exact_out.get((1, 1)))
                chk.extra.setdefault("theorems", []).append("HOM: 50:50 coupler, |1,1>, coincidence = (1 - %s)/2 = %s (exact)" % (indist, exact_out.get((1, 1), F(0))))
    if calib > 1e-12:
        raise MachineryError("source evaluator calibration failed: %.3g" % calib)
    # continuous source parameters: structure and outcome table from the specification, numbers by the calibrated evaluator
    ncont = 60 if th else 12
    for i in range(ncont):
        cname, ins = rng.choice(GRID_Q + [("lossy3b", (1, 0, 0))])
        if i % 5 in (0, 2):        # three to five photons, two modes with the same occupation >= 2, runs of three empty modes
            special = [("lossy3", (1, 1, 1)), ("wide5", (1, 0, 0, 0, 1)), ("lossy3", (2, 0, 2)), ("hom2", (2, 2)), ("her3", (1, 1, 1)), ("lossy3b", (2, 1, 2)),
                       ("wide5", (0, 1, 0, 0, 1)), ("hom2", (3, 2)), ("lossy3", (2, 2, 1))]
            cname, ins = special[(2 * (i // 5) + (i % 5) // 2) % len(special)]
        nu, purity, indist = rng.uniform(0.3, 1), rng.uniform(0.75, 1), rng.uniform(0, 1)
        if rng.random() < 0.2:
            nu = 1.0
        if rng.random() < 0.2:
            purity = 1.0
        if i % 5 == 1:
            purity = rng.choice([0.992, 0.9991, 0.995, 1 - 1e-6])      # just below one (closed form of p2 where a series would be tempting)
        if i % 5 == 3:
            indist = rng.choice([1e-9, 1 - 1e-9, 0.0, 1.0])
        e = ev_source(CIRCS[cname], ins, nu, purity, indist)
        name = "cont%d_%s" % (i, cname)
        chk.count(key=name + repr((nu, purity, indist)))
        compare_real(chk, name, CIRCS[cname], ins, nu, purity, indist, None, e)
    # ONE long-lived Source (and Sampler) on which one setting at a time is changed: every read must equal the evaluator's value for
    # the CURRENT settings (a fresh Source per case cannot see settings that are remembered from the previous call)
    import lightworks as lw
    from lightworks import emulator as emu
    for cname, ins in (("hom2", (1, 1)), ("lossy3", (1, 0, 1))):
        cur = {"brightness": 0.8, "purity": 0.9, "indistinguishability": 0.7}
        src = emu.Source(**cur)
        sam = emu.Sampler(build_real(CIRCS[cname]), lw.State(list(ins)), source=src)
        steps = [("purity", 0.95), ("purity", 1.0), ("indistinguishability", 0.2), ("brightness", 0.6), ("purity", 0.8), ("indistinguishability", 0.2001),
                 ("brightness", 1.0), ("purity", 0.97)]
        hist = []
        for k, (attr, v) in enumerate([(None, None)] + steps):
            if attr:
                setattr(src, attr, v)
                cur[attr] = v
                hist.append((attr, v))
            e = ev_source(CIRCS[cname], ins, cur["brightness"], cur["purity"], cur["indistinguishability"])
            chk.count(key="reuse/%s/%d" % (cname, k))
            stats = src._build_statistics(lw.State(list(ins)))
            fresh = emu.Source(**cur)._build_statistics(lw.State(list(ins)))
            ka = sorted((repr(s), round(p, 12)) for s, p in stats.items())
            kb = sorted((repr(s), round(p, 12)) for s, p in fresh.items())
            script = {"module": "LwSource (evaluator)", "circuit": cname, "input": list(ins), "history": [("init", 0.8, 0.9, 0.7)] + hist}
            if ka != kb:
                chk.violation("input_statistics", "long-lived Source after %s: input statistics differ from those of a fresh Source with the same settings" % (hist[-3:],),
                              script, {"call": "Source/reuse"})
                break
            got = {tuple(s.s): p for s, p in sam.probability_distribution.items()}
            if any(abs(got.get(o, 0.0) - e.get(o, 0.0)) > 1e-8 for o in set(got) | set(e)):
                chk.violation("output_distribution", "long-lived Sampler/Source after %s: distribution differs from the mixture for the current settings" % (hist[-3:],),
                              script, {"call": "Source/reuse"})
                break
    chk.traces_validated = chk.evaluations
    chk.add_phase("continuous source parameters through the evaluator", configurations=ncont, evaluator_calibration_max_err=calib)
    chk.add_phase("one long-lived Source and Sampler, one setting changed at a time", circuits=2, steps=9)
    chk.rule = ("cases = (circuit, intended input, brightness, purity, indistinguishability); for the rational grid TLC enumerates every emission pattern "
                "of LwSource with exact weights and exact per-pattern output distributions (mode-wise convolution of the groups' boson-sampling "
                "distributions) and the harness sums them; compared with Source._build_statistics (as multisets of photon groups) and with the "
                "Sampler's distribution for both back-ends. For continuous parameters the calibrated evaluator computes the same mixture. "
                "non-trivial = imperfect source settings; distinct = distinct configurations")
    chk.assumptions = ["TLC 1.8 + CommunityModules", "circuits with dyadic-rational probabilities (50:50 couplers, phases multiples of pi/2, loss 1/2)",
                       "thresholds that remove inputs (probability_threshold) are not exercised", "evaluator calibrated against TLC in this run (max err %.2g)" % calib]
    return chk.finish()


def replay_file(path):
    import json
    with open(path) as fh:
        v = json.load(fh)
    sc = v["script"]
    chk = Check(PID, "quick")
    rec = sc["circuit"]
    rec = {"nu": rec["nu"], "anc": (), "hord": (), "ops": tuple((o[0], tuple(o[1]), tuple(o[2]) if isinstance(o[2], list) else o[2]) for o in rec["ops"])}
    nu, purity, indist = (float(Fraction(sc[k])) if "/" in str(sc[k]) or str(sc[k]).isdigit() else float(sc[k]) for k in ("brightness", "purity", "indistinguishability"))
    e = ev_source(rec, sc["input"], nu, purity, indist)
    compare_real(chk, sc["config"], rec, sc["input"], nu, purity, indist, None, e)
    chk.count("replay"); chk.count("replay2")
    chk.rule = "replay of one configuration through the evaluator"
    return chk.finish()
