"""Exact ring Z[i,sqrt2][1/2] <-> floats.  Element <<a,b,c,d,k>> = (a + b s + c i + d i s)/2^k."""
import math
import itertools

S2 = math.sqrt(2.0)


def to_complex(x):
    a, b, c, d, k = x
    f = 2.0 ** k
    return complex((a + b * S2) / f, (c + d * S2) / f)


def mat_to_np(M):
    """M: tuple of rows of ring elements (as parsed from TLC) -> numpy array"""
    import numpy as np
    n = len(M)
    out = np.zeros((n, len(M[0]) if n else 0), dtype=complex)
    for i, row in enumerate(M):
        for j, x in enumerate(row):
            out[i, j] = to_complex(x)
    return out


def norm(x):
    a, b, c, d, k = x
    if a == 0 and b == 0 and c == 0 and d == 0:
        return (0, 0, 0, 0, 0)
    while k > 0 and a % 2 == 0 and b % 2 == 0 and c % 2 == 0 and d % 2 == 0:
        a //= 2; b //= 2; c //= 2; d //= 2; k -= 1
    return (a, b, c, d, k)


def _quant_real(v, kmax, tol):
    """find (a, b, k), k minimal, with |(a + b s)/2^k - v| <= tol; None if there is none (vectorised search over b)"""
    import numpy as np
    for k in range(0, kmax + 1):
        f = 2.0 ** k
        t = v * f
        B = int(1.5 * f * max(1.0, abs(v))) + 2
        bb = np.arange(-B, B + 1)
        a = np.rint(t - bb * S2)
        err = np.abs(a + bb * S2 - t)
        ok = np.nonzero(err <= tol * f)[0]
        if len(ok):
            i = ok[np.argmin(np.abs(bb[ok]))]
            return int(a[i]), int(bb[i]), k
    return None


def quantise(z, kmax=10, tol=1e-11):
    """nearest ring element with bounded denominator, or None (OFFRING)"""
    z = complex(z)
    r = _quant_real(z.real, kmax, tol)
    i = _quant_real(z.imag, kmax, tol)
    if r is None or i is None:
        return None
    k = max(r[2], i[2])
    fr = 2 ** (k - r[2]); fi = 2 ** (k - i[2])
    x = norm((r[0] * fr, r[1] * fr, i[0] * fi, i[1] * fi, k))
    if abs(to_complex(x) - z) > 2 * tol:
        return None
    return x


def quantise_matrix(A, kmax=10, tol=1e-11):
    out = []
    for row in A:
        r = []
        for z in row:
            q = quantise(z, kmax, tol)
            if q is None:
                return None
            r.append(q)
        out.append(tuple(r))
    return tuple(out)
