"""Batch trace validation: recorded traces -> TLA+ literal module -> TLC trace specification."""
import os

from . import tlc, tlaval
from .tlc import MachineryError


def write_trace_module(wd, traces, name="TraceData"):
    with open(os.path.join(wd, name + ".tla"), "w") as fh:
        fh.write("---- MODULE %s ----\nEXTENDS Integers\nZ == <<0,0,0,0,0>>\nO == <<1,0,0,0,0>>\nTraces == <<\n" % name)
        for i, tr in enumerate(traces):
            fh.write(("," if i else "") + tlaval.fmt(tr).replace("<<0,0,0,0,0>>", "Z").replace("<<1,0,0,0,0>>", "O") + "\n")
        fh.write(">>\n====\n")


def validate(wdname, trace_module, traces, modules, invariants=("Ok", "TermOut", "Accepted"), timeout=900, workers=16):
    """Returns dict(bad={tid: (event index, clauses)}, accepted=set(tids), terms={tid: term}, res=TLCResult).
    tids are 1-based indices into `traces`."""
    wd = tlc.workdir(wdname)
    tlc.copy_specs(wd, set(modules) | {trace_module})
    write_trace_module(wd, traces)
    tlc.write_mc(wd, "MCT", trace_module, {})
    tlc.write_cfg(wd, "MCT", {}, invariants=invariants, spec="Spec")
    res = tlc.run(wd, "MCT", workers=workers, timeout=timeout, cont=True)
    if res.timed_out or res.rc not in (0, 12):
        tail = "\n".join(res.out.strip().split("\n")[-25:])
        raise MachineryError("trace validation %s: TLC rc=%s timed_out=%s\n%s" % (wdname, res.rc, res.timed_out, tail))
    bad = {}
    acc = set()
    terms = {}
    for p in res.prints:
        if p[0] == "BAD":
            if p[1] not in bad or p[2] < bad[p[1]][0]:
                cl = sorted(p[3])
                if "DRIFT" in cl and len(cl) > 1:
                    cl.remove("DRIFT")
                bad[p[1]] = (p[2], cl)
        elif p[0] == "ACCEPTED":
            acc.add(p[1])
        elif p[0] == "TERM":
            terms[p[1]] = p[2]
    if res.unparsed_prints:
        raise MachineryError("trace validation %s: %d PrintT values could not be parsed, e.g. %s" % (wdname, res.unparsed_prints, res.unparsed_text))
    # structure-only traces that were accepted must have exported their term
    for t in acc:
        tr = traces[t - 1]
        first = tr[0] if isinstance(tr, (list, tuple)) and tr else None      # LwCircuitTrace traces are event lists; LwGatesTrace records are not
        if isinstance(first, dict) and first.get("num") is False and t not in terms:
            raise MachineryError("trace validation %s: accepted structure-only trace %d exported no TERM" % (wdname, t))
    # every trace must have a verdict
    for t in range(1, len(traces) + 1):
        if t not in bad and t not in acc:
            raise MachineryError("trace validation %s: no verdict for trace %d" % (wdname, t))
    return {"bad": bad, "accepted": acc, "terms": terms, "res": res}
