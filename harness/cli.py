import argparse
import importlib
import os
import sys

from .common import main_wrapper


def main():
    ap = argparse.ArgumentParser()
    ap.add_argument("pid")
    ap.add_argument("--tier", default=os.environ.get("VERIF_TIER", "quick"), choices=["quick", "thorough"])
    ap.add_argument("--replay")
    a = ap.parse_args()
    mod = importlib.import_module("harness.props." + a.pid.lower())
    if a.replay:
        main_wrapper(lambda: mod.replay_file(a.replay))
    main_wrapper(lambda: mod.run(a.tier))


if __name__ == "__main__":
    main()
