"""Replay of LwRewrites states: the real rewrite algorithms vs their TLA+ transcription (structure: DRIFT; semantics: violation)."""
import math

import numpy as np


def build(nu, ops, c=None):
    import lightworks as lw
    c = c or lw.Circuit(nu)
    for kind, lines, par in ops:
        if kind == "bs":
            c.bs(lines[0] - 1, lines[1] - 1, reflectivity={0: 0.0, 1: 0.5, 2: 1.0}[par[0]], convention=par[1])
        elif kind == "ps":
            c.ps(lines[0] - 1, par * math.pi / 4)
        elif kind == "loss":
            c.loss(lines[0] - 1, {0: 0.0, 1: 0.5, 2: 1.0}[par])
        elif kind == "perm":
            c.mode_swaps({a - 1: b - 1 for a, b in zip(lines, par)})
        elif kind == "grp":
            span = max(max(l) for _, l, _ in par)          # the group covers lines 1..span
            sub = build(span, par)
            c.add(sub, 0, group=True)
    return c


def render(spec):
    from lightworks.sdk.circuit.components import Barrier, BeamSplitter, Group, Loss, ModeSwaps, PhaseShifter
    out = []
    for s in spec:
        if isinstance(s, BeamSplitter):
            out.append(("bs", (s.mode_1 + 1, s.mode_2 + 1), (round(float(s.reflectivity), 9), s.convention)))
        elif isinstance(s, PhaseShifter):
            out.append(("ps", (s.mode + 1,), round(float(s.phi), 9)))
        elif isinstance(s, Loss):
            out.append(("loss", (s.mode + 1,), round(float(s.loss), 9)))
        elif isinstance(s, ModeSwaps):
            out.append(("perm", tuple(sorted((k + 1, v + 1) for k, v in s.swaps.items() if True))))
        elif isinstance(s, Group):
            out.append(("grp", tuple(render(s.circuit_spec))))
        elif isinstance(s, Barrier):
            out.append(("bar",))
        else:
            out.append((type(s).__name__,))
    return out


def render_abstract(ops):
    out = []
    for kind, lines, par in ops:
        if kind == "bs":
            out.append(("bs", tuple(lines), ({0: 0.0, 1: 0.5, 2: 1.0}[par[0]], par[1])))
        elif kind == "ps":
            out.append(("ps", tuple(lines), round(par * math.pi / 4, 9)))
        elif kind == "loss":
            out.append(("loss", tuple(lines), {0: 0.0, 1: 0.5, 2: 1.0}[par]))
        elif kind == "perm":
            out.append(("perm", tuple(sorted(zip(lines, par)))))
        elif kind == "grp":
            out.append(("grp", tuple(render_abstract(par))))
    return out


def strip_identity_swaps(r):
    return [x for x in r if not (x[0] == "perm" and all(a == b for a, b in x[1]))]


def worker(st, ctx):
    ops = st["ops"]
    nu = ctx["nu"]
    out = {"findings": [], "drift": None, "ops": ops}
    if not ops:
        return out
    from .circuit import structure
    c = build(nu, ops)
    U0 = c.U_full.copy()
    s0 = structure(c)
    for name, idx in (("compress_mode_swaps", 0), ("remove_non_adjacent_bs", 1)):
        d = c.copy()
        n0 = len(d._get_circuit_spec())
        getattr(d, name)()
        if structure(c) != s0:
            out["findings"].append(("arg_mutated", "%s on a copy changed the component list of the original (%s)" % (name, ops)))
            s0 = structure(c)
        U1 = d.U_full
        if U1.shape != U0.shape or np.abs(U1 - U0).max() > 1e-9:
            out["findings"].append(("rewrite_changed", "%s changed U_full of %s" % (name, ops)))
        spec = d._get_circuit_spec()
        if name == "compress_mode_swaps" and len(spec) > n0:
            out["findings"].append(("components_grew", "%s: %d -> %d components" % (name, n0, len(spec))))
        got = render(spec)
        exp = render_abstract(st["res"][idx])
        if strip_identity_swaps(got) != strip_identity_swaps(exp) and out["drift"] is None:
            out["drift"] = "%s of %s gives %s, transcription %s" % (name, ops, got, exp)
    return out
