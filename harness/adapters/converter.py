"""Replay of LwConverter programs: build the qiskit circuit, convert it, compare the decisions with the model and check the
property itself (accepted amplitudes = one scalar x the column of qiskit's unitary)."""
import itertools
import math
import random

import numpy as np

SINGLE = ["h", "t", "s", "sx", "x", "y", "z", "sdg", "tdg", ("rx", 0.7), ("ry", 1.1), ("rz", 0.3), ("p", 0.5), None, None,
          ("rx", -0.9), ("ry", -2.3), ("rz", -1.7), ("p", -0.8), ("rx", 7.9), ("ry", 9.1), ("rz", 11.0), ("p", 6.9),
          # angles that differ from the ones above in the fifth decimal (anything keyed on a rounded angle confuses them)
          ("rx", 0.70003), ("ry", 1.10004), ("rz", 0.29997), ("p", 0.50002), ("rx", 0.69996),
          # phases a few 1e-6 away from a multiple of pi/2 (where "snapping to the exact value" would be tempting)
          ("p", math.pi / 2 + 3e-6), ("p", 2 * math.pi - 2e-6), ("p", 4e-6), ("p", math.pi + 5e-6), ("rz", math.pi / 2 - 3e-6), ("p", -math.pi / 2 + 2e-6)]


def build_qc(gates, nq, seed):
    from qiskit import QuantumCircuit, QuantumRegister
    rng = random.Random(seed)
    desc = []
    if nq >= 2 and rng.random() < 0.3:          # the same qubits spread over several registers (global index = position in the circuit)
        cut = rng.randrange(1, nq)
        regs = [QuantumRegister(cut, "a"), QuantumRegister(nq - cut, "b")]
        if nq - cut >= 2 and rng.random() < 0.5:
            cut2 = rng.randrange(1, nq - cut)
            regs = [QuantumRegister(cut, "a"), QuantumRegister(cut2, "b"), QuantumRegister(nq - cut - cut2, "c")]
        qc = QuantumCircuit(*regs)
        desc.append(("registers", tuple(r.size for r in regs)))
    else:
        qc = QuantumCircuit(nq)

    def single(q):
        g = rng.choice(SINGLE)
        if g is None:
            return
        if isinstance(g, tuple):
            getattr(qc, g[0])(g[1], q)
            desc.append((g[0], g[1], q))
        else:
            getattr(qc, g)(q)
            desc.append((g, q))
    for q in range(nq):
        single(q)
    for name, qs in gates:
        if name in ("cx", "cz") and rng.random() < 0.04:
            # an open-controlled gate (acts when the control is |0>): the converter has no such gate - it must refuse, or convert it correctly
            getattr(qc, name)(*qs, ctrl_state=0)
            desc.append((name + " ctrl_state=0",) + tuple(qs))
            for q in qs:
                single(q)
            continue
        getattr(qc, name)(*qs)
        desc.append((name,) + tuple(qs))
        for q in qs:
            single(q)
    return qc, desc


def check_amplitudes(qc, circ, ps):
    """returns (|scalar|^2, max deviation from scalar x unitary, largest accepted amplitude outside the qubit subspace)"""
    import lightworks as lw
    from lightworks import emulator as emu
    from qiskit.quantum_info import Operator
    nq = qc.num_qubits
    sim = emu.Simulator(circ)
    basis = list(itertools.product([0, 1], repeat=nq))

    def st(bits):
        s = []
        for b in bits:
            s += [1, 0] if b == 0 else [0, 1]
        return lw.State(s)
    res = sim.simulate([st(b) for b in basis])
    M = np.zeros((2 ** nq, 2 ** nq), dtype=complex)
    leak = 0.0
    index = {b: i for i, b in enumerate(basis)}
    for j, o in enumerate(res.outputs):
        if ps is not None and not ps.validate(o):
            continue
        pairs = [tuple(o[2 * k: 2 * k + 2].s) for k in range(nq)]
        if all(p in [(1, 0), (0, 1)] for p in pairs):
            bits = tuple(0 if p == (1, 0) else 1 for p in pairs)
            M[index[bits], :] = res.array[:, j]
        else:
            leak = max(leak, float(np.abs(res.array[:, j]).max()))
    U = Operator(qc).data          # little endian: qubit 0 is the least significant bit

    def idx(bits):
        return sum(b << k for k, b in enumerate(bits))
    Mq = np.zeros_like(M)
    for i, bi in enumerate(basis):
        for j, bj in enumerate(basis):
            Mq[idx(bi), idx(bj)] = M[i, j]
    k = np.argmax(np.abs(U))
    sc = Mq.flat[k] / U.flat[k]
    err = float(np.abs(Mq - sc * U).max())
    return float(abs(sc) ** 2), err, leak


def worker(st, ctx):
    """st: a Convert state of LwConverter (gates, ps, rules, refused)"""
    from lightworks import qubit
    from lightworks.qubit.converter.qiskit_convert import post_selection_analyzer
    gates = [(g[0], tuple(g[1])) for g in st["gates"]]
    nq, allow = ctx["nq"], ctx["allow_ps"]
    out = {"gates": gates, "findings": [], "drift": None, "allow_ps": allow, "desc": None, "refused_model": st["refused"]}
    qc, desc = build_qc(gates, nq, ctx["seed"] ^ (hash(repr(gates)) & 0xFFFFFF))
    out["desc"] = desc
    # decisions (implementation-shaped): compare, DRIFT only
    if allow:
        flags, rq = post_selection_analyzer(qc)
        multi = [f for f, inst in zip(flags, qc.data) if inst.operation.num_qubits >= 2]
        if list(multi) != list(st["ps"]) or set(rq) != set(st["rules"]):
            out["drift"] = "post-selection decisions %s rules %s, model %s rules %s for %s" % (multi, sorted(rq), list(st["ps"]), sorted(st["rules"]), gates)
    import signal

    class _Hang(BaseException):
        pass

    def _alarm(signum, frame):
        raise _Hang()
    old = signal.signal(signal.SIGALRM, _alarm)
    signal.alarm(5)
    try:
        # the flag in the forms a caller may hold it: bool, numpy bool, int
        k_ = hash(repr(gates)) % 3
        flag = allow if k_ == 0 else (np.bool_(allow) if k_ == 1 else int(allow))
        circ, ps = qubit.qiskit_converter(qc, allow_post_selection=flag)
    except _Hang:
        out["findings"].append(("unitary", "qiskit_converter did not return within 5 s (neither a circuit nor a refusal); gates %s" % (desc,)))
        return out
    except Exception as e:  # noqa: BLE001
        if not st["refused"]:
            out["drift"] = (out["drift"] or "") + " converter refused (%s) where the model converts" % type(e).__name__
        return out
    finally:
        signal.alarm(0)
        signal.signal(signal.SIGALRM, old)
    # the converter returned a circuit: whatever the model says, it must implement the unitary
    try:
        sc2, err, leak = check_amplitudes(qc, circ, ps)
    except Exception as e:  # noqa: BLE001
        out["findings"].append(("simulation_failed", "converted circuit cannot be simulated: %s: %s" % (type(e).__name__, e)))
        return out
    if sc2 < 1e-18:
        out["findings"].append(("zero_scalar", "accepted amplitudes vanish (|scalar|^2 = %.3g)" % sc2))
    elif err > 1e-8 * max(1.0, sc2 ** 0.5) and err / sc2 ** 0.5 > 1e-7:
        out["findings"].append(("unitary", "accepted amplitudes differ from scalar x unitary by %.3g (|scalar| = %.3g); gates %s" % (err, sc2 ** 0.5, desc)))
    if leak > 1e-8 * max(1.0, 1.0) and leak / max(sc2 ** 0.5, 1e-300) > 1e-7:
        out["findings"].append(("leak", "an accepted output outside the qubit subspace has amplitude %.3g (|scalar| = %.3g); gates %s" % (leak, sc2 ** 0.5, desc)))
    if st["refused"]:
        out["drift"] = (out["drift"] or "") + " converter returned a (correct) circuit where the model refuses"
    return out
