"""Replay of LwCache behaviours on long-lived real Sampler / QuickSampler / Analyzer objects.  After every read the
long-lived object's answer is compared with that of a FRESHLY constructed object with the same settings (C11 verbatim)."""
import random

import numpy as np

import lightworks as lw
from lightworks import emulator as emu

PV = {1: 0.3, 2: 1.1, 3: 0.3 + 2e-7}        # 3: a step from 1 that changes every matrix element by less than 1e-8 + 1e-5 |u|
INPUTS = {1: [1, 0], 2: [1, 1], 3: [0, 0]}       # 3: the vacuum (with circuit A, C, D: no photon at all)
BRIGHT = {1: 1.0, 2: 0.6}
BACKENDS = {1: "permanent", 2: "slos"}
PURITY = {1: 1.0, 2: 0.9}
EFF = {1: 1.0, 2: 0.5}


def ps_factory(m):
    """closures made by ONE factory share their code object and differ only in the captured mode"""
    return lambda s: s[m] >= 1


class World:
    def __init__(self):
        self.p = lw.Parameter(PV[1])
        self.circ = {}
        # A and B differ only in the herald photon number; C has its (0-photon) herald on a DIFFERENT mode
        for name, n, hm in (("A", 0, 2), ("B", 1, 2), ("C", 0, 0), ("D", 0, 1)):
            c = lw.Circuit(3)
            c.bs(0, 1)
            c.ps(1, self.p)             # inside a Mach-Zehnder loop, so that the value is visible in the probabilities
            c.bs(0, 1)
            c.bs(1, 2, reflectivity=0.4)
            if name != "D":             # D is lossless: imperfect detection then produces states outside the ideal distribution's support
                c.loss(0, 0.2)
            c.herald(n, hm)
            self.circ[name] = c
        self.psx = lw.PostSelection(multi_rules=True)
        self.psx.add(0, (0, 1))
        self.n_mut = 0
        self.closures = {2: ps_factory(0), 3: ps_factory(1)}
        self.src = emu.Source(brightness=BRIGHT[1], purity=PURITY[1])        # the shared Source object S
        self.det = emu.Detector(efficiency=EFF[1])                          # the shared Detector object D
        self.aps = lw.PostSelection()                                        # the Analyzer's PostSelection object
        self.aps.add(0, (0, 1))

    def edit(self, c):
        self.circ[c].bs(0, 1, reflectivity=0.3, loss=0.1)       # the edit also adds a loss element: U_full grows

    def mutate_ps(self):
        self.n_mut += 1
        if self.n_mut == 1:
            self.psx.add(1, (0, 1, 2))      # a mode that had no rule
        else:
            self.psx.add(0, 0)              # a second rule on a mode that already has one (the set of modes with rules does not change)

    def mutate_aps(self):
        self.aps.add(1, 0)

    def ps_of(self, tok):
        return None if tok == 0 else self.psx if tok == 1 else self.closures[tok]


def make(kind, world, cfg):
    if kind == "sampler":
        src = world.src if cfg.get("src") else emu.Source(brightness=BRIGHT[cfg["br"]])
        kw = {"detector": world.det} if cfg.get("det") else {}
        return emu.Sampler(world.circ[cfg["circ"]], lw.State(INPUTS[cfg["inp"]]), source=src, backend=BACKENDS[cfg["be"]], **kw)
    kw = dict(photon_counting=bool(cfg["pnr"]))
    if cfg["ps"]:
        kw["post_select"] = world.ps_of(cfg["ps"])
    return emu.QuickSampler(world.circ[cfg["circ"]], lw.State(INPUTS[cfg["inp"]]), **kw)


def dist_equal(a, b):
    ka = {tuple(s.s): p for s, p in a.items()}
    kb = {tuple(s.s): p for s, p in b.items()}
    return set(ka) == set(kb) and all(abs(ka[k] - kb[k]) < 1e-12 for k in ka)


def do_read(kind, obj, name):
    """returns ('ok', value) or ('raise', exception name)"""
    try:
        if name == "read_dist":
            return ("ok", dict(obj.probability_distribution))
        if name == "sample":
            random.seed(12345)
            return ("ok", obj.sample())
        if name == "sample_n_in":
            if kind == "quick":
                return ("ok", dict(obj.sample_N_outputs(40, seed=11)))
            return ("ok", dict(obj.sample_N_inputs(40, seed=11)))
        if name == "sample_n_out":
            return ("ok", dict(obj.sample_N_outputs(40, seed=13)))
    except Exception as e:  # noqa: BLE001
        return ("raise", "%s: %s" % (type(e).__name__, e))
    raise ValueError(name)


def same(name, a, b):
    if a[0] != b[0]:
        return False
    if a[0] == "raise":
        return a[1].split(":")[0] == b[1].split(":")[0]
    if name == "read_dist":
        return dist_equal(a[1], b[1])
    if name == "sample":
        return a[1] == b[1]
    return {tuple(s.s): n for s, n in a[1].items()} == {tuple(s.s): n for s, n in b[1].items()}


def replay_behaviour(states, kind):
    """returns (findings [(clause, step, detail, sig)], script)"""
    out = []
    script = []
    world = World()
    cfg = states[0]["cfg"]
    w0 = states[0].get("w")
    if isinstance(w0, dict) and w0.get("deff", 1) != 1:
        world.det.efficiency = EFF[w0["deff"]]
    obj = None
    an = None
    if kind in ("sampler", "quick"):
        obj = make(kind, world, cfg)
    else:
        an = emu.Analyzer(world.circ["A"])
        an.post_selection = world.aps
    for i, st in enumerate(states[1:], 1):
        name, arg = st["last"]
        script.append((name, arg))
        cfg = st["cfg"]
        try:
            _apply(kind, world, obj, an, name, arg, cfg, out, i, script)
        except Exception as e:  # noqa: BLE001
            from ..common import library_raised
            if not library_raised(e):
                raise
            out.append(("raised/%s" % name, i, "%s(%s) raised %s: %s (history %s)" % (name, arg, type(e).__name__, e, script), {"call": name}))
        if out:
            break
    return out, script


def _apply(kind, world, obj, an, name, arg, cfg, out, i, script):
    if True:
        if name == "set_circuit":
            obj.circuit = world.circ[arg]
        elif name == "edit_circuit":
            world.edit(arg)
        elif name == "set_param":
            world.p.set(PV[arg])
        elif name == "set_input":
            obj.input_state = lw.State(INPUTS[arg])
        elif name == "set_source":
            obj.source = emu.Source(brightness=BRIGHT[arg])
        elif name == "set_backend":
            obj.backend = BACKENDS[arg]
        elif name == "set_ps":
            obj.post_select = world.ps_of(arg)
        elif name == "use_shared_source":
            obj.source = world.src if arg else emu.Source(brightness=BRIGHT[cfg["br"]])
        elif name == "mutate_source":
            if arg[0] == "sb":
                world.src.brightness = BRIGHT[arg[1]]
            else:
                world.src.purity = PURITY[arg[1]]
        elif name == "use_shared_detector":
            obj.detector = world.det if arg else emu.Detector()
        elif name == "mutate_detector":
            world.det.efficiency = EFF[arg]
        elif name == "mutate_analyzer_ps":
            world.mutate_aps()
        elif name == "mutate_ps":
            world.mutate_ps()
        elif name == "set_pnr":
            obj.photon_counting = bool(arg)
        elif name == "analyze":
            ins = lw.State([1, 0])
            if arg:
                r = an.analyze(ins, expected={ins: lw.State([1, 0])})
            else:
                r = an.analyze(ins)
            fresh = emu.Analyzer(world.circ["A"])
            fresh.post_selection = world.aps
            rf = fresh.analyze(ins)
            same_out = [tuple(o.s) for o in r.outputs] == [tuple(o.s) for o in rf.outputs]
            if not same_out or np.abs(np.array(r.array) - np.array(rf.array)).max() > 1e-12 or abs(r.performance - rf.performance) > 1e-12:
                out.append(("stale/analyzer/analyze", i, "analyze() on the long-lived Analyzer differs from a freshly created Analyzer with the same settings "
                            "(outputs %s vs %s; history %s)" % ([tuple(o.s) for o in r.outputs], [tuple(o.s) for o in rf.outputs], script), {"call": "Analyzer.analyze"}))
            has = hasattr(r, "error_rate")
            if has != bool(arg):
                out.append(("analysis_own", i, "analyze(expected %s) returned a result that %s error_rate" %
                            ("given" if arg else "not given", "carries" if has else "lacks"), {"call": "Analyzer.analyze"}))
        elif name in ("read_dist", "sample", "sample_n_in", "sample_n_out"):
            if kind == "quick" and name == "sample_n_out":
                return
            got = do_read(kind, obj, name)
            ref = do_read(kind, make(kind, world, cfg), name)
            if ref[0] == "raise":
                return          # no fresh object answers with these settings: outside the property
            if not same(name, got, ref):
                what = "raised %s" % got[1] if got[0] == "raise" else "a different result"
                hist = [s[0] for s in script]
                only_mut = "mutate_ps" in hist
                out.append(("stale/%s/%s" % (kind, name), i, "%s on the long-lived %s gave %s than a freshly created object with the same settings (history %s)"
                            % (name, kind, what, script), {"call": "%s.%s" % (kind, name), "after_in_place_ps_mutation": only_mut}))


def sim_worker(args):
    from .. import tlaval
    path, kind = args
    states = tlaval.sim_states(path, last_only=False)
    f, script = replay_behaviour(states, kind)
    return {"findings": f, "script": script}
