"""Characterisation of the real qubit gate circuits: logical block, common scalar, leak."""
import itertools
import math
from fractions import Fraction

import numpy as np

from .. import ring


def characterise(circ, qubit_modes, post_selected):
    """qubit_modes: list of (m0, m1) per qubit (positions among the circuit's INPUT modes).
    returns (G, leak) : G[out, in] heralded amplitudes between dual-rail basis states (q0 most significant),
    leak = largest accepted amplitude outside the qubit subspace."""
    import lightworks as lw
    from lightworks import emulator as emu
    nq = len(qubit_modes)
    nm = circ.input_modes
    basis = list(itertools.product([0, 1], repeat=nq))

    def occ(bits):
        s = [0] * nm
        for (m0, m1), b in zip(qubit_modes, bits):
            s[m1 if b else m0] += 1
        return s
    res = emu.Simulator(circ).simulate([lw.State(occ(b)) for b in basis])
    G = np.zeros((2 ** nq, 2 ** nq), dtype=complex)
    index = {tuple(occ(b)): i for i, b in enumerate(basis)}
    leak = 0.0
    for j, o in enumerate(res.outputs):
        key = tuple(o.s)
        if key in index:
            G[index[key], :] = res.array[:, j]
        else:
            per_qubit_one = all(o[m0] + o[m1] == 1 for m0, m1 in qubit_modes)
            accepted = per_qubit_one if post_selected else True
            if accepted:
                leak = max(leak, float(np.abs(res.array[:, j]).max()))
    return G, leak


def record(gate, opt, G, leak):
    """trace record for LwGatesTrace: block normalised by |scalar| and by the phase of its largest entry"""
    s2 = float(np.real(np.vdot(G[:, 0], G[:, 0])))
    rec = {"gate": gate, "opt": opt, "block": (), "s2": (0, 0), "leak": bool(leak > 1e-9 * max(math.sqrt(max(s2, 0)), 1e-300) and leak > 1e-12)}
    fr = Fraction(s2).limit_denominator(1000)
    if abs(float(fr) - s2) < 1e-9 and fr > 0:
        rec["s2"] = (fr.numerator, fr.denominator)
    if s2 > 1e-20:
        B = G / math.sqrt(s2)
        k = np.argmax(np.abs(B))
        B = B * np.exp(-1j * np.angle(B.flat[k]))
        q = ring.quantise_matrix(B, kmax=6, tol=1e-9)
        if q is not None:
            rec["block"] = q
    return rec, s2


def rot(name, theta):
    c, s = math.cos(theta / 2), math.sin(theta / 2)
    if name == "Rx":
        return np.array([[c, -1j * s], [-1j * s, c]])
    if name == "Ry":
        return np.array([[c, -s], [s, c]])
    if name == "Rz":
        return np.array([[np.exp(-1j * theta / 2), 0], [0, np.exp(1j * theta / 2)]])
    return np.array([[1, 0], [0, np.exp(1j * theta)]])


def equal_up_to_phase(G, V, tol=1e-9):
    k = np.argmax(np.abs(V))
    if abs(G.flat[k]) < 1e-15:
        return False
    ph = G.flat[k] / V.flat[k]
    return bool(np.abs(G - ph * V).max() < tol and abs(abs(ph) - 1) < tol)
