"""Replay of LwPostSelection states into lightworks.PostSelection."""
import itertools


def all_states(n, p):
    return [s for s in itertools.product(range(p + 1), repeat=n) if sum(s) <= p]


def worker(st, ctx):
    import lightworks as lw
    from ..common import library_raised
    hist = st["hist"]
    out = {"findings": [], "hist": hist}
    ps = lw.PostSelection(multi_rules=ctx["multi"])
    for i, ev in enumerate(hist):
        if ev[1] != "add":
            continue
        ms, cs = tuple(ev[2]), tuple(ev[3])
        a = ms[0] if len(ms) == 1 and i % 2 == 0 else ms          # a single mode / count may be given as a bare integer
        b = cs[0] if len(cs) == 1 and i % 2 == 1 else cs
        before = ([r.as_tuple() for r in ps.rules], list(ps.modes))
        try:
            ps.add(a, b)
            raised = None
        except ValueError as e:
            raised = e
        except Exception as e:  # noqa: BLE001
            if not library_raised(e):
                raise
            raised = e
        if ev[0] == "ok" and raised is not None:
            out["findings"].append(("ps_valid_call_raised", "PostSelection.add(%s, %s) raised %s: %s after %s" % (a, b, type(raised).__name__, raised, list(hist[:i]))))
            return out
        if ev[0] == "rej":
            if raised is None:
                out["findings"].append(("ps_not_rejected", "PostSelection.add(%s, %s) was accepted after %s" % (a, b, list(hist[:i]))))
                return out
            if ([r.as_tuple() for r in ps.rules], list(ps.modes)) != before:
                out["findings"].append(("ps_reject_changed_state", "refused add(%s, %s) changed the rule object" % (a, b)))
    got = [(tuple(r.modes), tuple(r.n_photons)) for r in ps.rules]
    exp = [(tuple(r[0]), tuple(r[1])) for r in st["rules"]]
    if got != exp:
        out["findings"].append(("ps_rules", "rules %s, specification %s (history %s)" % (got, exp, list(hist))))
    if list(ps.modes) != sorted(st["withRule"]):
        out["findings"].append(("ps_modes", "modes %s, specification %s" % (ps.modes, sorted(st["withRule"]))))
    if hist and hist[-1][1] == "validate":
        acc = {tuple(s) for s in st["res"]}
        for s in all_states(ctx["nmodes"], ctx["maxphot"]):
            v = ps.validate(lw.State(list(s)))
            if bool(v) != (s in acc):
                out["findings"].append(("ps_validate", "validate(%s) = %s with rules %s, specification %s" % (list(s), v, got, s in acc)))
                break
        if [(tuple(r.modes), tuple(r.n_photons)) for r in ps.rules] != exp:
            out["findings"].append(("ps_validate_changed_state", "validate changed the rules"))
    return out
