"""Replay of LwStates states on real State / AnnotatedState objects and the herald helpers; immutability probes."""
import random

import numpy as np

import lightworks as lw
from lightworks.emulator.state import AnnotatedState
from lightworks.sdk.utils.heralding_utils import add_heralds_to_state, remove_heralds_from_state


def annotate(occ, base=0):
    """annotated version of an occupation list: k photons in a mode get labels base, base+1, ..."""
    return [[base + q for q in range(n)] for n in occ]


def worker(st, ctx):
    from ..common import library_raised
    try:
        return _worker(st, ctx)
    except Exception as e:  # noqa: BLE001
        if not library_raised(e):
            raise
        return {"findings": [("raised", "%s: %s" % (type(e).__name__, e))],
                "case": (list(st["a"]), list(st["b"]), list(st["c"]), sorted(st["h"]), st["lo"], st["hi"])}


def _worker(st, ctx):
    a, b, c = list(st["a"]), list(st["b"]), list(st["c"])
    res = st["res"]
    out = {"findings": [], "case": (a, b, c, sorted(st["h"]), st["lo"], st["hi"])}
    if not isinstance(res, dict):
        return out
    f = out["findings"]
    rng = random.Random(hash(repr(out["case"])) & 0xFFFF)
    A, B, C = lw.State(a), lw.State(b), lw.State(c)

    def chk(clause, what, got, exp):
        if got != exp:
            f.append((clause, "%s: got %s, expected %s" % (what, got, exp)))
    chk("add", "%s + %s" % (a, c), (A + C).s, list(res["add"]))
    chk("merge", "%s.merge(%s)" % (a, b), A.merge(B).s, list(res["merge"]))
    chk("slice", "%s[%d:%d]" % (a, st["lo"], st["hi"]), A[st["lo"]:st["hi"]].s, list(res["slice"]))
    if not isinstance(A[st["lo"]:st["hi"]], lw.State):
        f.append(("slice", "a slice is not a State"))
    # every other slice form is list slicing too: steps, negative indices, open ends (the specification's SliceLaw is the unit-step case)
    for sl in (slice(None, None, 2), slice(None, None, -1), slice(1, None, 2), slice(None, None, 3), slice(-2, None), slice(None, -1), slice(None, None, -2),
               slice(st["lo"], st["hi"], 2), slice(None, None, None), slice(st["hi"], st["lo"], -1)):
        got = A[sl]
        if not isinstance(got, lw.State) or got.s != list(a)[sl] or got.n_modes != len(list(a)[sl]) or got.n_photons != sum(list(a)[sl]):
            f.append(("slice", "%s[%s:%s:%s] gave %s, expected %s" % (a, sl.start, sl.stop, sl.step, got, list(a)[sl])))
            break
    chk("equality", "%s == %s" % (a, b), A == B, res["eq"])
    if A == B and hash(A) != hash(B):
        f.append(("hash", "equal states %s hash differently" % (a,)))
    if (A == B) != (a == b):
        f.append(("equality", "%s == %s is %s" % (a, b, A == B)))
    chk("counts", "n_photons of %s" % (a,), A.n_photons, res["nph"])
    chk("counts", "n_modes of %s" % (a,), (A.n_modes, len(A)), (res["nmodes"], res["nmodes"]))
    # heralds, with the dictionary keys in a shuffled insertion order
    items = list(st["h"])
    rng.shuffle(items)
    hd = {p: n for p, n in items}
    w = add_heralds_to_state(lw.State(a), hd)
    chk("herald_insert", "add_heralds_to_state(%s, %s)" % (a, hd), list(w), list(res["with"]))
    w2 = add_heralds_to_state(list(a), hd)
    chk("herald_insert", "add_heralds_to_state(list %s, %s)" % (a, hd), list(w2), list(res["with"]))
    pos = list(hd)
    rng.shuffle(pos)
    back = remove_heralds_from_state(lw.State(list(res["with"])), pos)
    chk("herald_roundtrip", "remove_heralds_from_state(%s, %s)" % (list(res["with"]), pos), list(back), a)
    # annotated states: same algebra on label multisets, label order irrelevant
    AA, AB, AC = AnnotatedState(annotate(a)), AnnotatedState(annotate(b, 10)), AnnotatedState(annotate(c, 20))
    chk("annotated", "annotated n_photons", AA.n_photons, res["nph"])
    chk("annotated", "annotated n_modes", AA.n_modes, res["nmodes"])
    chk("annotated", "annotated +", [len(m) for m in (AA + AC).s], list(res["add"]))
    chk("annotated", "annotated merge", [len(m) for m in AA.merge(AB).s], list(res["merge"]))
    chk("annotated", "annotated slice", [len(m) for m in AA[st["lo"]:st["hi"]].s], list(res["slice"]))
    mixed = AA.merge(AB)
    shuffled = []
    for m in mixed.s:
        m = list(m)
        rng.shuffle(m)
        shuffled.append(m)
    S2 = AnnotatedState(shuffled)
    if not (S2 == mixed) or hash(S2) != hash(mixed):
        f.append(("annotated", "label order within a mode changes equality / hash: %s vs %s" % (mixed, S2)))
    return out


def immutability_probes():
    """States are immutable through their API: mutate everything an accessor hands out, then compare with a fresh copy"""
    out = []
    for occ in ([0, 1, 2], [1], [2, 0, 0, 1]):
        s = lw.State(list(occ))
        h0 = hash(s)
        x = s.s; x.append(9); x[0] = 7
        for v in s:
            pass
        it = list(s); it[0] = 5
        sl = s[0:2]
        try:
            s[0] = 3
            out.append(("immutable", "State.__setitem__ accepted", {"call": "State.__setitem__"}))
        except Exception:  # noqa: BLE001
            pass
        try:
            s.s = [1]
            out.append(("immutable", "State.s assignment accepted", {"call": "State.s"}))
        except Exception:  # noqa: BLE001
            pass
        try:
            s.n_modes = 5
            out.append(("immutable", "State.n_modes assignment accepted", {"call": "State.n_modes"}))
        except Exception:  # noqa: BLE001
            pass
        if s != lw.State(list(occ)) or hash(s) != h0 or s.s != list(occ):
            out.append(("immutable", "State %s changed through an accessor" % (occ,), {"call": "State accessors"}))
        # augmented assignment: `t += u` / `t *= k` rebind the NAME; every other holder of the old value (an alias, a dictionary key,
        # an operand of an earlier sum) must keep seeing the old value
        alias = s
        d = {s: "kept"}
        earlier = s + lw.State([4])
        t = s
        t += lw.State([1, 1])
        t2 = s
        try:
            t2 *= 2
        except TypeError:
            pass
        t3 = s
        try:
            t3 &= lw.State([0] * len(occ))
        except TypeError:
            pass
        if alias.s != list(occ) or hash(alias) != h0 or lw.State(list(occ)) not in d or earlier.s != list(occ) + [4] or t.s != list(occ) + [1, 1]:
            out.append(("immutable", "State %s: `t += u` changed the value other references hold (alias now %s, sum now %s, result %s)" % (occ, alias, earlier, t),
                        {"call": "State.__iadd__"}))
    for lab in ([[0], [1, 2]], [[], [3]], [[0, 1], [], [2]]):
        import copy
        a = AnnotatedState(copy.deepcopy(lab))
        h0 = hash(a)
        x = a.s
        x.append([9])
        if x and x[0] is not None:
            x[0].append(8)
        for m in a:
            m.append(6)
        try:
            a[0].append(7)
        except Exception:  # noqa: BLE001
            pass
        sl = a[0:1]
        try:
            sl.s[0].append(4)
        except Exception:  # noqa: BLE001
            pass
        try:
            a[0] = [1]
            out.append(("immutable", "AnnotatedState.__setitem__ accepted", {"call": "AnnotatedState.__setitem__"}))
        except Exception:  # noqa: BLE001
            pass
        alias = a
        b = a
        b += AnnotatedState([[5]])
        try:
            b2 = a
            b2 &= AnnotatedState([[] for _ in lab])
        except TypeError:
            pass
        if alias is not a or len(a.s) != len(lab) or len(b.s) != len(lab) + 1:
            out.append(("immutable", "AnnotatedState %s: `t += u` changed the value other references hold (now %s)" % (lab, a), {"call": "AnnotatedState.__iadd__"}))
        fresh = AnnotatedState(copy.deepcopy(lab))
        if a != fresh or hash(a) != h0 or sorted(map(sorted, a.s)) != sorted(map(sorted, lab)):
            out.append(("immutable", "AnnotatedState %s changed through an accessor (now %s)" % (lab, a), {"call": "AnnotatedState accessors"}))
    return out


def numeric_probes(seed, n):
    """unit conversions invert each other; seeded random unitaries / permutations are valid and reproducible"""
    from lightworks import db_loss_to_decimal, decimal_to_db_loss, random_permutation, random_unitary
    rng = random.Random(seed)
    out = []
    for _ in range(n):
        x = rng.uniform(0, 0.999999)
        if abs(db_loss_to_decimal(decimal_to_db_loss(x)) - x) > 1e-9:
            out.append(("conversion", "db_loss_to_decimal(decimal_to_db_loss(%r)) != x" % x, {"call": "conversion"}))
            break
        d = rng.uniform(0, 60)
        if abs(decimal_to_db_loss(db_loss_to_decimal(d)) - d) > 1e-6:
            out.append(("conversion", "decimal_to_db_loss(db_loss_to_decimal(%r)) != d" % d, {"call": "conversion"}))
            break
    # states built from numpy integers are the same values as those built from ints: equal, and then equal hashes / same dictionary key
    import lightworks as lw
    for occ in ([1, 0], [0, 2, 1], [3], [1, 1, 0, 2]):
        a_, b_ = lw.State(occ), lw.State([np.int64(x) for x in occ])
        c_ = lw.State(list(np.array(occ)))
        for other, how in ((b_, "numpy int64 entries"), (c_, "entries taken from a numpy array")):
            if a_ == other and (hash(a_) != hash(other) or len({a_: 1, other: 2}) != 1):
                out.append(("hash", "State(%s) and the same state built from %s compare equal but hash differently" % (occ, how), {"call": "State.__hash__"}))
            if a_ != other:
                out.append(("equality", "State(%s) differs from the same state built from %s" % (occ, how), {"call": "State.__eq__"}))
    # states of different length are different states, also when one is the other padded with empty modes
    for short, long_ in (([1, 0, 2], [1, 0, 2, 0, 0]), ([], [0]), ([2], [2, 0]), ([0, 1], [0, 1, 0])):
        if lw.State(short) == lw.State(long_) or lw.State(long_) == lw.State(short):
            out.append(("equality", "State(%s) == State(%s)" % (short, long_), {"call": "State.__eq__"}))
    # what random_unitary / random_permutation hand out is the caller's: changing it must not reach a later call with the same seed
    for fn, nm in ((random_unitary, "random_unitary"), (random_permutation, "random_permutation")):
        first = fn(3, seed=12345)
        keep = first.copy()
        first[:] = 0
        if np.abs(fn(3, seed=12345) - keep).max() > 0:
            out.append(("random", "%s(3, seed=12345) differs after the array returned by an earlier call was modified" % nm, {"call": nm}))
    edge = [(2, 0), (1, 0), (3, 0), (1, 1), (2, 1), (5, 2 ** 32 - 1)]        # seed 0, dimension 1, the largest 32-bit seed
    for k in range(max(4, n // 200) + len(edge)):
        N = rng.randint(2, 8)
        sd = rng.randint(0, 10 ** 6)
        if k < len(edge):
            N, sd = edge[k]
        U = random_unitary(N, seed=sd)
        if np.abs(U.conj().T @ U - np.eye(N)).max() > 1e-9 or U.shape != (N, N):
            out.append(("random", "random_unitary(%d, seed=%d) is not unitary" % (N, sd), {"call": "random_unitary"}))
        if np.abs(random_unitary(N, seed=sd) - U).max() > 0:
            out.append(("random", "random_unitary not reproducible for seed %d" % sd, {"call": "random_unitary"}))
        P = random_permutation(N, seed=sd)
        if sorted(np.argmax(np.abs(P), axis=0).tolist()) != list(range(N)) or np.abs(np.abs(P).sum(axis=0) - 1).max() > 1e-12 or np.abs(P.conj().T @ P - np.eye(N)).max() > 1e-12:
            out.append(("random", "random_permutation(%d, seed=%d) is not a permutation matrix" % (N, sd), {"call": "random_permutation"}))
        if np.abs(random_permutation(N, seed=sd) - P).max() > 0:
            out.append(("random", "random_permutation not reproducible", {"call": "random_permutation"}))
    return out
