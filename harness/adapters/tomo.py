"""Tomography: base circuits from logical gate programs, a noiseless experiment callback that is independent of the
library's Sampler, and the comparison of the reconstructed quantities with the specification's exact values."""
import itertools
import math
import random

import numpy as np

from .. import ev, ring

S2 = 1 / math.sqrt(2)
H2 = np.array([[S2, S2], [S2, -S2]], dtype=complex)
BASIS = {"X": H2, "Y": H2 @ np.diag([1, -1]) @ np.diag([1, 1j]), "Z": np.eye(2, dtype=complex)}


def build_base(gs, nq, two_qubit="ps"):
    import lightworks as lw
    from lightworks import qubit
    c = lw.Circuit(2 * nq)
    for name, q in gs:
        if name == "CZ":
            c.add(qubit.CZ() if two_qubit == "ps" else qubit.CZ_Heralded(), 0)
        elif name == "CNOT":
            c.add(qubit.CNOT(q) if two_qubit == "ps" else qubit.CNOT_Heralded(q), 0)
        elif name == "SWAP":
            c.add(qubit.SWAP((0, 1), (2, 3)), 0)
        else:
            c.add(getattr(qubit, name)(), 2 * q)
    return c


def logical_probs(circ, in_state, normalise=True):
    """noiseless outcome frequencies over the dual-rail outputs of the user modes, heralds satisfied, conditioned on a
    logical output; computed from U_full with the harness's own permanent (no Sampler, no Simulator)"""
    import lightworks as lw
    U = circ.U_full
    n_full = U.shape[0]
    hin, hout = circ.heralds["input"], circ.heralds["output"]
    nm = circ.n_modes
    nq = circ.input_modes // 2

    def full(state, heralds):
        out = [0] * n_full
        it = iter(state)
        for i in range(nm):
            out[i] = heralds[i] if i in heralds else next(it)
        return out
    fin = full(list(in_state), hin)
    res = {}
    for bits in itertools.product([0, 1], repeat=nq):
        occ = []
        for b in bits:
            occ += [1, 0] if b == 0 else [0, 1]
        p = abs(ev.amplitude(U, fin, full(occ, hout))) ** 2
        res[lw.State(occ)] = p
    tot = sum(res.values())
    if not normalise:
        return res
    return {s: p / tot for s, p in res.items()} if tot > 0 else res


def analyzer_probs(circ, in_state):
    """the same frequencies obtained the way the library's documentation does it: Analyzer + one photon per qubit"""
    import lightworks as lw
    from lightworks import emulator as emu
    nq = circ.input_modes // 2
    an = emu.Analyzer(circ)
    ps = lw.PostSelection()
    for i in range(nq):
        ps.add((2 * i, 2 * i + 1), 1)
    an.post_selection = ps
    st = lw.State(list(in_state))
    r = an.analyze(st)
    probs = {o: float(r[st, o]) for o in r.outputs}
    tot = sum(probs.values())
    return {s_: p / tot for s_, p in probs.items() if p > 0}


class Experiment:
    """records what the tomography asks for and answers with exact frequencies, in a shuffled dictionary order"""

    def __init__(self, seed, source="permanent", raw=False):
        self.rng = random.Random(seed)
        self.calls = []
        self.raw = raw              # True: un-normalised weights (the success probability of post-selected / heralded gates stays in), as counts would be
        self.source = source        # "permanent": the harness's own permanent; "analyzer": the library's Analyzer (the documented way to get exact frequencies)

    def state(self, circuits):
        self.calls.append(("state", list(circuits), None))
        return [self._answer(c, [1, 0] * (c.input_modes // 2)) for c in circuits]

    def process(self, circuits, inputs):
        self.calls.append(("process", list(circuits), list(inputs)))
        return [self._answer(c, list(s)) for c, s in zip(circuits, inputs)]

    def _answer(self, c, ins):
        d = analyzer_probs(c, ins) if self.source == "analyzer" else logical_probs(c, ins, normalise=not self.raw)
        items = list(d.items())
        self.rng.shuffle(items)
        if self.raw:
            # counts, not frequencies: every setting was measured with its own number of shots (post-selection, adaptive budgets, merged
            # runs), so the totals differ from setting to setting; noiseless = exactly proportional to the probabilities
            shots = self.rng.choice([1, 7, 250, 1234.5, 1e6])
            items = [(k_, v * shots) for k_, v in items]
        return dict(items)


def embed_basis(base, setting):
    """expected U_full of 'base followed by the per-qubit basis changes of setting'"""
    U = base.U_full.copy()
    internal = set(base._internal_modes)
    users = [p for p in range(base.n_modes) if p not in internal and p not in base.heralds["output"]]     # the qubit rails: visible, not heralded
    n = U.shape[0]
    for k, c in enumerate(setting):
        B = np.eye(n, dtype=complex)
        a, b = users[2 * k], users[2 * k + 1]
        blk = BASIS[c]
        B[a, a], B[a, b], B[b, a], B[b, b] = blk[0, 0], blk[0, 1], blk[1, 0], blk[1, 1]
        U = B @ U
    return U


def check_requested(base, circuits, nq):
    """exactly one circuit per required setting, each = base followed by the setting's basis changes"""
    settings = list(itertools.product("XYZ", repeat=nq))
    seen = {}
    for i, c in enumerate(circuits):
        V = c.U_full
        match = [s for s in settings if V.shape == base.U_full.shape and np.abs(embed_basis(base, s) - V).max() < 1e-9]
        if len(match) != 1:
            return "requested circuit %d is not the base circuit followed by one setting's basis changes (matches %s)" % (i, match)
        seen[match[0]] = seen.get(match[0], 0) + 1
    if sorted(seen) != sorted(settings) or any(v != 1 for v in seen.values()):
        return "settings requested %s, required exactly once each: %s" % (seen, settings)
    return None


def snap(c):
    return (c.n_modes, c.input_modes, c.heralds, np.round(c.U_full, 12).tobytes())


def ptrace_out(J, d):
    """partial trace over the OUTPUT factor of a Choi matrix on in (x) out"""
    J4 = J.reshape(d, d, d, d)
    return np.einsum("ikjk->ij", J4)


def fidelity_probe(fn, exact, seed, K=40):
    """fidelity of the exact (rank deficient) matrix against itself under K Hermitian perturbations of a few units in the last
    place that keep exact zeros on the diagonal - what noiseless frequencies look like after floating-point arithmetic.
    Returns None or a description of the first failure (exception from the library, non-finite value, value != 1)."""
    from ..common import library_raised
    rng = np.random.default_rng(seed)
    d = exact.shape[0]
    u = 1.3877787807814457e-17
    for k in range(K):
        N = (rng.integers(-5, 6, size=(d, d)) + 1j * rng.integers(-5, 6, size=(d, d))) * u
        N = N + N.conj().T
        mask = rng.random((d, d)) < 0.3
        N = N * (mask | mask.T)
        np.fill_diagonal(N, 0)
        try:
            v = fn(exact + N, exact)
        except Exception as e:  # noqa: BLE001
            if not library_raised(e):
                raise
            return "raised %s: %s (perturbation %d, size %.1e)" % (type(e).__name__, e, k, np.abs(N).max())
        if not np.isfinite(v) or abs(v - 1) > 1e-6:
            return "returned %r (perturbation %d, size %.1e)" % (v, k, np.abs(N).max())
    return None


def bell_regression():
    """F24: the history that exposed it - |01>+|10> prepared with H, X, CNOT; frequencies from the Analyzer in its own order"""
    import lightworks as lw
    from lightworks import qubit, tomography as tm
    from ..common import library_raised
    out = []
    for sign in (1, -1):
        c = lw.Circuit(4)
        if sign < 0:
            c.add(qubit.X(), 0)
        c.add(qubit.H(), 0)
        c.add(qubit.X(), 2)
        c.add(qubit.CNOT(), 0)
        t = tm.StateTomography(2, c, lambda circuits: [analyzer_probs(x, [1, 0, 1, 0]) for x in circuits])
        rho = t.process()
        psi = np.array([0, 1, sign, 0], dtype=complex) / math.sqrt(2)
        rx = np.outer(psi, psi.conj())
        if np.abs(rho - rx).max() > 1e-8:
            out.append(("rho", "(|01> %s |10>)/sqrt2: reconstructed density matrix off by %.3g" % ("+" if sign > 0 else "-", np.abs(rho - rx).max())))
        try:
            fid = t.fidelity(rx)
            if not np.isfinite(fid) or abs(fid - 1) > 1e-6:
                out.append(("fidelity", "(|01> %s |10>)/sqrt2 with Analyzer frequencies: fidelity %r" % ("+" if sign > 0 else "-", fid)))
        except Exception as e:  # noqa: BLE001
            if not library_raised(e):
                raise
            out.append(("fidelity", "(|01> %s |10>)/sqrt2 with Analyzer frequencies: StateTomography.fidelity raised %s: %s" % ("+" if sign > 0 else "-", type(e).__name__, e)))
    return out


def worker(st, ctx):
    from ..common import library_raised
    try:
        return _worker(st, ctx)
    except Exception as e:  # noqa: BLE001
        if not library_raised(e):
            raise
        return {"findings": [("raised", "%s: %s" % (type(e).__name__, e))], "gs": st["gs"], "ctx": ctx}


def _worker(st, ctx):
    """one Tomograph state of LwTomo: program gs with exact rho, choi, fidelities"""
    import lightworks as lw
    from lightworks import tomography as tm
    out = st["out"]
    res = {"findings": [], "gs": st["gs"], "ctx": ctx}
    if not isinstance(out, dict):
        return None
    nq = ctx["nq"]
    gs = [(g[0], g[1]) for g in st["gs"]]
    f = res["findings"]
    if ctx.get("two_qubit", "ps") == "ps" and sum(1 for g in gs if g[0] in ("CZ", "CNOT")) > 1:
        return None         # post-selected two-qubit gates cannot be cascaded: not a valid base circuit
    base = build_base(gs, nq, ctx.get("two_qubit", "ps"))
    s0 = snap(base)
    Vexact = ring.mat_to_np(st["V"])
    seed = ctx["seed"] ^ (hash(repr(gs)) & 0xFFFF)
    if "state" in ctx["what"]:
        ex = Experiment(seed)
        t = tm.StateTomography(nq, base, ex.state)
        rho = t.process()
        msg = check_requested(base, ex.calls[0][1], nq)
        if msg:
            f.append(("protocol", msg))
        rx = ring.mat_to_np(out["rho"])
        if np.abs(rho - rx).max() > 1e-8:
            f.append(("rho", "reconstructed density matrix differs from |psi><psi| by %.3g for program %s" % (np.abs(rho - rx).max(), gs)))
        if np.abs(rho - rho.conj().T).max() > 1e-9 or abs(np.trace(rho) - 1) > 1e-9:
            f.append(("rho", "density matrix not Hermitian / unit trace"))
        fid = t.fidelity(rx)
        if abs(fid - 1) > 1e-6:
            f.append(("fidelity", "state fidelity against the prepared state is %.8f" % fid))
        if snap(base) != s0:
            f.append(("base_changed", "state tomography changed the base circuit"))
        # the same protocol with frequencies from the library's own Analyzer (equal to the above up to rounding in the last digit)
        t2 = tm.StateTomography(nq, base, Experiment(seed, "analyzer").state)
        rho2 = t2.process()
        if np.abs(rho2 - rx).max() > 1e-8:
            f.append(("rho", "with Analyzer frequencies: reconstructed density matrix differs from |psi><psi| by %.3g for program %s" % (np.abs(rho2 - rx).max(), gs)))
        try:
            fid2 = t2.fidelity(rx)
            if abs(fid2 - 1) > 1e-6:
                f.append(("fidelity", "with Analyzer frequencies: state fidelity against the prepared state is %.8f" % fid2))
        except Exception as e:  # noqa: BLE001
            from ..common import library_raised
            if not library_raised(e):
                raise
            f.append(("fidelity", "with Analyzer frequencies: StateTomography.fidelity raised %s: %s (program %s)" % (type(e).__name__, e, gs)))
        msg = fidelity_probe(tm.state_fidelity, rx, seed)
        if msg:
            f.append(("fidelity", "state_fidelity of the prepared state (program %s) against itself, rounded in the last place: %s" % (gs, msg)))
    if "li" in ctx["what"]:
        ex = Experiment(seed)
        t = tm.LIProcessTomography(nq, base, ex.process)
        J = t.process()
        Jx = ring.mat_to_np(out["choi"])
        Jref = tm.choi_from_unitary(Vexact)
        if np.abs(J - Jx).max() > 1e-7:
            f.append(("li_choi", "linear-inversion Choi matrix differs from the experiments' Choi matrix by %.3g (program %s)" % (np.abs(J - Jx).max(), gs)))
        if np.abs(Jref - Jx).max() > 1e-9:
            f.append(("choi_reference", "choi_from_unitary(V) differs from the Choi matrix the tomography measures by %.3g (program %s)" % (np.abs(Jref - Jx).max(), gs)))
        fid = t.fidelity(Jref)
        if abs(fid - 1) > 1e-5:
            f.append(("li_fidelity", "LI process fidelity against choi_from_unitary(V) is %.6f (program %s)" % (fid, gs)))
        if snap(base) != s0:
            f.append(("base_changed", "process tomography changed the base circuit"))
        t2 = tm.LIProcessTomography(nq, base, Experiment(seed, "analyzer").process)
        J2 = t2.process()
        if np.abs(J2 - Jx).max() > 1e-7:
            f.append(("li_choi", "with Analyzer frequencies: linear-inversion Choi matrix differs by %.3g (program %s)" % (np.abs(J2 - Jx).max(), gs)))
        try:
            fid2 = t2.fidelity(Jref)
            if abs(fid2 - 1) > 1e-5:
                f.append(("li_fidelity", "with Analyzer frequencies: LI process fidelity is %.6f (program %s)" % (fid2, gs)))
        except Exception as e:  # noqa: BLE001
            from ..common import library_raised
            if not library_raised(e):
                raise
            f.append(("li_fidelity", "with Analyzer frequencies: LIProcessTomography.fidelity raised %s: %s (program %s)" % (type(e).__name__, e, gs)))
        msg = fidelity_probe(tm.process_fidelity, Jref, seed, K=20)
        if msg:
            f.append(("li_fidelity", "process_fidelity of choi_from_unitary(V) (program %s) against itself, rounded in the last place: %s" % (gs, msg)))
    if "gf" in ctx["what"]:
        ex = Experiment(seed)
        g = tm.GateFidelity(nq, base, ex.process)
        d = 2 ** nq
        for target, key in ((Vexact, "fidSelf"), (np.eye(d), "fidId")):
            got = g.process(target)
            num, den = out[key]
            exp = ring.to_complex(num).real / den
            if abs(got - exp) > 1e-7:
                f.append(("gate_fidelity", "gate fidelity %.8f, formula value %.8f (target %s, program %s)" % (got, exp, "V" if key == "fidSelf" else "identity", gs)))
    if "mle" in ctx["what"]:
        ex = Experiment(seed)
        t = tm.MLEProcessTomography(nq, base, ex.process)
        J = t.process()
        Jref = tm.choi_from_unitary(Vexact)
        d = 2 ** nq
        ev_min = np.linalg.eigvalsh((J + J.conj().T) / 2).min()
        if ev_min < -1e-8:
            f.append(("mle_positive", "MLE Choi matrix has eigenvalue %.3g" % ev_min))
        if np.abs(ptrace_out(J, d) - np.eye(d)).max() > 5e-3:      # the library's own CPTP projection stops at 1e-4 (squared norm)
            f.append(("mle_tp", "MLE Choi matrix is not trace preserving (dev %.3g)" % np.abs(ptrace_out(J, d) - np.eye(d)).max()))
        fid = t.fidelity(Jref)
        if fid < 0.99:
            f.append(("mle_fidelity", "MLE process fidelity against choi_from_unitary(V) is %.4f (program %s)" % (fid, gs)))
    return res


# ---------------------------------------------------------------- results that outlive a later tomography (same process, same size)
KEPT = {}


def outlives(kind, nq, t, J, desc, f):
    """the Choi matrix handed out by an EARLIER tomography object of the same kind and size (kept by its caller, and still reported by that
    object) must be what it was, after this later one has run; then this one is kept for the next"""
    prev = KEPT.get((kind, nq))
    if prev is not None:
        t0, held, copy0, desc0 = prev
        for what, now in (("the array returned by process()", held), ("the object's .choi", t0.choi)):
            if now.shape != copy0.shape or np.abs(now - copy0).max() > 0:
                f.append((kind + "_choi" if kind == "li" else "mle_fidelity", "%s of an EARLIER %s process tomography (%s) changed by %.3g when a later tomography of the same "
                          "size ran in the same process (%s)" % (what, kind.upper(), desc0, np.abs(now - copy0).max() if now.shape == copy0.shape else float("nan"), desc)))
                break
    KEPT[(kind, nq)] = (t, J, np.array(J, copy=True), desc)


# ---------------------------------------------------------------- continuous unitaries (evaluator side of C16)
def _haar(rng, d):
    Z = (rng.normal(size=(d, d)) + 1j * rng.normal(size=(d, d))) / math.sqrt(2)
    Q, R = np.linalg.qr(Z)
    return Q * (np.diag(R) / np.abs(np.diag(R)))


def choi_def(V):
    """|V>><<V| with |V>> = sum_i |i> (x) V|i>  (LwTomo!VecCol, the convention TLC pins to the experiments)"""
    d = V.shape[0]
    v = np.array([V[x % d, x // d] for x in range(d * d)])
    return np.outer(v, v.conj())


def continuous_case(args):
    """one Haar-random process: 1 qubit = one arbitrary unitary; 2 qubits = (U3 x U4) . E . (U1 x U2), E in {CZ, CNOT(0), CNOT(1), SWAP}"""
    nq, k, what = args
    from ..common import library_raised
    try:
        return _continuous_case(nq, k, what)
    except Exception as e:  # noqa: BLE001
        if not library_raised(e):
            raise
        return {"findings": [("raised", "%s: %s" % (type(e).__name__, e))], "case": (nq, k)}


def _continuous_case(nq, k, what):
    import lightworks as lw
    from lightworks import qubit, tomography as tm
    rng = np.random.default_rng(100003 * nq + k)
    f = []
    if nq == 1:
        V = _haar(rng, 2)
        base = lw.Circuit(2)
        base.add(lw.Unitary(V.copy()), 0)
        desc = "Haar-random single-qubit unitary #%d" % k
    else:
        Us = [_haar(rng, 2) for _ in range(4)]
        ent = ["CZ", "CNOT0", "CNOT1", "SWAP"][k % 4]
        # qubit.CNOT(t): t is the TARGET qubit (qubit 0 = most significant bit)
        E = {"CZ": np.diag([1, 1, 1, -1]), "CNOT1": np.array([[1, 0, 0, 0], [0, 1, 0, 0], [0, 0, 0, 1], [0, 0, 1, 0]]),
             "CNOT0": np.array([[1, 0, 0, 0], [0, 0, 0, 1], [0, 0, 1, 0], [0, 1, 0, 0]]), "SWAP": np.array([[1, 0, 0, 0], [0, 0, 1, 0], [0, 1, 0, 0], [0, 0, 0, 1]])}[ent].astype(complex)
        V = np.kron(Us[2], Us[3]) @ E @ np.kron(Us[0], Us[1])
        base = lw.Circuit(4)
        base.add(lw.Unitary(Us[0].copy()), 0)
        base.add(lw.Unitary(Us[1].copy()), 2)
        base.add({"CZ": qubit.CZ(), "CNOT0": qubit.CNOT(0), "CNOT1": qubit.CNOT(1), "SWAP": qubit.SWAP((0, 1), (2, 3))}[ent], 0)
        base.add(lw.Unitary(Us[2].copy()), 0)
        base.add(lw.Unitary(Us[3].copy()), 2)
        desc = "(U3 x U4) . %s . (U1 x U2), Haar-random #%d" % (ent, k)
    d = 2 ** nq
    Jx = choi_def(V)
    Jref = tm.choi_from_unitary(V)
    s0 = snap(base)
    if np.abs(Jref - Jx).max() > 1e-9:
        f.append(("choi_reference", "choi_from_unitary(V) differs from the Choi matrix the tomography measures by %.3g (%s)" % (np.abs(Jref - Jx).max(), desc)))
    if "li" in what and k % 4 in (1, 2):
        # histories on ONE tomography object: a Parameter of the base circuit set AFTER the object was created (k % 4 == 1), a second
        # process() after the base circuit was extended (k % 4 == 2) - the result is always that of the circuit as it is NOW
        par = lw.Parameter(0.0)
        base.ps(0, par)                          # phase on the |0> rail of qubit 0: diag(e^{ip}, 1) on that qubit, the identity while p = 0
        th1 = LIh = None
        th1 = tm.LIProcessTomography(nq, base, Experiment(k, raw=(k % 8 == 1)).process)
        gfh = tm.GateFidelity(nq, base, Experiment(k).process)
        if k % 4 == 2:
            th1.process()
            gfh.process(V)
        pnew = 0.7 + 0.1 * (k % 5)
        par.set(pnew)
        Ph = _embed(np.diag([np.exp(1j * pnew), 1.0]), [0], nq)
        Vn = Ph @ V
        if k % 4 == 2:
            W2 = _haar(rng, 2)
            base.add(lw.Unitary(W2.copy()), 2 * (nq - 1))
            Vn = _embed(W2, [nq - 1], nq) @ Vn
        Jn = th1.process()
        if np.abs(Jn - choi_def(Vn)).max() > 1e-7:
            f.append(("li_choi", "one LIProcessTomography object, base circuit %s after the object was created: the Choi matrix differs from that of the CURRENT "
                                 "circuit by %.3g (%s)" % ("re-parameterised" if k % 4 == 1 else "extended between two process() calls", np.abs(Jn - choi_def(Vn)).max(), desc)))
        gotf = gfh.process(Vn)
        if abs(gotf - 1) > 1e-7:
            f.append(("gate_fidelity", "one GateFidelity object, base circuit changed after it was created: fidelity against the current unitary is %.8f (%s)" % (gotf, desc)))
        V = Vn
        Jx = choi_def(V)
        Jref = tm.choi_from_unitary(V)
        s0 = snap(base)
    if "li" in what:
        t = tm.LIProcessTomography(nq, base, Experiment(k).process)
        J = t.process()
        outlives("li", nq, t, J, desc, f)
        if np.abs(J - Jx).max() > 1e-7:
            f.append(("li_choi", "linear-inversion Choi matrix differs from the experiments' Choi matrix by %.3g (%s)" % (np.abs(J - Jx).max(), desc)))
        fid = t.fidelity(Jref)
        if not np.isfinite(fid) or abs(fid - 1) > 1e-5:
            f.append(("li_fidelity", "LI process fidelity against choi_from_unitary(V) is %r (%s)" % (fid, desc)))
    if "gf" in what:
        g = tm.GateFidelity(nq, base, Experiment(k).process)
        W = _haar(rng, d)
        for target, name in ((V, "V"), (W, "a Haar-random target"), (np.exp(0.7j) * V, "V times a global phase")):
            got = g.process(target)
            exp = (abs(np.trace(target.conj().T @ V)) ** 2 + d) / (d * (d + 1))
            if abs(got - exp) > 1e-7:
                f.append(("gate_fidelity", "gate fidelity %.8f, formula value %.8f (target %s; %s)" % (got, exp, name, desc)))
    if "mle" in what:
        t = tm.MLEProcessTomography(nq, base, Experiment(k).process)
        J = t.process()
        outlives("mle", nq, t, J, desc, f)
        ev_min = np.linalg.eigvalsh((J + J.conj().T) / 2).min()
        if ev_min < -1e-8:
            f.append(("mle_positive", "MLE Choi matrix has eigenvalue %.3g (%s)" % (ev_min, desc)))
        if np.abs(ptrace_out(J, d) - np.eye(d)).max() > 5e-3:
            f.append(("mle_tp", "MLE Choi matrix is not trace preserving (dev %.3g; %s)" % (np.abs(ptrace_out(J, d) - np.eye(d)).max(), desc)))
        fid = t.fidelity(Jref)
        if not (fid >= 0.99):
            f.append(("mle_fidelity", "MLE process fidelity against choi_from_unitary(V) is %.4f (%s)" % (fid, desc)))
    if snap(base) != s0:
        f.append(("base_changed", "process tomography changed the base circuit (%s)" % desc))
    return {"findings": f, "case": (nq, k), "desc": desc, "V": [[repr(complex(x)) for x in row] for row in V]}


# ---------------------------------------------------------------- continuous states (evaluator side of C15), n = 1..3 qubits
def _embed(G, qs, nq):
    """the nq-qubit matrix of gate G acting on qubits qs (qubit 0 = most significant)"""
    d = 2 ** nq
    k = len(qs)
    M = np.zeros((d, d), dtype=complex)
    for col in range(d):
        bits = [(col >> (nq - 1 - q)) & 1 for q in range(nq)]
        sub_in = 0
        for q in qs:
            sub_in = (sub_in << 1) | bits[q]
        for sub_out in range(2 ** k):
            amp = G[sub_out, sub_in]
            if amp == 0:
                continue
            ob = list(bits)
            for j, q in enumerate(qs):
                ob[q] = (sub_out >> (k - 1 - j)) & 1
            row = 0
            for b in ob:
                row = (row << 1) | b
            M[row, col] += amp
    return M


def continuous_state_case(args):
    nq, k = args
    from ..common import library_raised
    try:
        return _continuous_state_case(nq, k)
    except Exception as e:  # noqa: BLE001
        if not library_raised(e):
            raise
        return {"findings": [("raised", "%s: %s" % (type(e).__name__, e))], "case": (nq, k)}


def _continuous_state_case(nq, k):
    import lightworks as lw
    from lightworks import qubit, tomography as tm
    rng = np.random.default_rng(200003 * nq + k)
    f = []
    CZ = np.diag([1, 1, 1, -1]).astype(complex)
    CN1 = np.array([[1, 0, 0, 0], [0, 1, 0, 0], [0, 0, 0, 1], [0, 0, 1, 0]], dtype=complex)      # target = second qubit of the pair
    base = lw.Circuit(2 * nq)
    V = np.eye(2 ** nq, dtype=complex)
    steps = []

    def local_layer():
        nonlocal V
        for q in range(nq):
            U = _haar(rng, 2)
            base.add(lw.Unitary(U.copy()), 2 * q)
            V = _embed(U, [q], nq) @ V
    local_layer()
    if nq >= 2:
        pairs = [(q, q + 1) for q in range(nq - 1)]
        rng.shuffle(pairs)
        if nq == 3 and k % 2 == 0:           # a heralded gate on one pair first, the post-selected one on the other pair last
            a, b = pairs[0]
            base.add(qubit.CNOT_Heralded(1), 2 * a)
            V = _embed(CN1, [a, b], nq) @ V
            steps.append("CNOT_Heralded(%d,%d)" % (a, b))
            local_layer()
            pairs = pairs[1:]
        a, b = pairs[0]
        kind = ["CZ", "CNOT", "CZ_Heralded"][k % 3]
        if kind == "CZ":
            base.add(qubit.CZ(), 2 * a)
            V = _embed(CZ, [a, b], nq) @ V
        elif kind == "CNOT":
            base.add(qubit.CNOT(1), 2 * a)
            V = _embed(CN1, [a, b], nq) @ V
        else:
            base.add(qubit.CZ_Heralded(), 2 * a)
            V = _embed(CZ, [a, b], nq) @ V
        steps.append("%s(%d,%d)" % (kind, a, b))
        local_layer()
    if k % 4 == 3:
        # the same preparation inside a circuit that carries a herald of its own, declared directly, in front of or behind the qubit modes
        outer = lw.Circuit(2 * nq + 1)
        form = (k // 4) % 3
        hn = (k // 12) % 2
        if form == 2:
            # the herald enters BEHIND the qubits and leaves IN FRONT of them: every qubit mode moves up by one on the way
            outer.add(base, 0)
            outer.mode_swaps({**{i: i + 1 for i in range(2 * nq)}, 2 * nq: 0})
            outer.herald(hn, 2 * nq, 0)
            steps.append("own %d-photon herald entering behind and leaving in front of the qubits" % hn)
        else:
            front = form == 0
            outer.herald(hn, 0 if front else 2 * nq)
            outer.add(base, 1 if front else 0)
            steps.append("own %d-photon herald %s the qubits" % (hn, "in front of" if front else "behind"))
        base = outer
    desc = "%d qubits, Haar-random local unitaries around %s, #%d" % (nq, steps or "nothing", k)
    psi = V[:, 0]
    rx = np.outer(psi, psi.conj())
    s0 = snap(base)
    if k % 5 == 2 and k % 4 != 3:
        # ONE StateTomography object used twice, the base circuit extended in between: the second answer is the state prepared NOW
        tt = tm.StateTomography(nq, base, Experiment(k).state)
        tt.process()
        local_layer()
        psi = V[:, 0]
        rx = np.outer(psi, psi.conj())
        rho2 = tt.process()
        if np.abs(rho2 - rx).max() > 1e-8:
            f.append(("rho", "one StateTomography object, base circuit extended between two process() calls: the second density matrix differs from the "
                             "state prepared now by %.3g (%s)" % (np.abs(rho2 - rx).max(), desc)))
        s0 = snap(base)
    for src in ("permanent", "analyzer", "raw"):
        ex = Experiment(k, "permanent" if src == "raw" else src, raw=(src == "raw"))
        t = tm.StateTomography(nq, base, ex.state)
        rho = t.process()
        if src == "permanent" and not any("entering behind" in s_ for s_ in steps if isinstance(s_, str)):
            # (with a herald that leaves on another mode than it entered, the requested circuits have another mode layout than the base
            # circuit - the library wraps it - so the matrix comparison of check_requested does not apply; the reconstruction below does)
            msg = check_requested(base, ex.calls[0][1], nq)
            if msg:
                f.append(("protocol", msg + " (%s)" % desc))
        if np.abs(rho - rx).max() > 1e-8:
            f.append(("rho", "%s frequencies: reconstructed density matrix differs from |psi><psi| by %.3g (%s)" % (src, np.abs(rho - rx).max(), desc)))
        if np.abs(rho - rho.conj().T).max() > 1e-9 or abs(np.trace(rho) - 1) > 1e-9:
            f.append(("rho", "density matrix not Hermitian / unit trace (%s)" % desc))
        fid = t.fidelity(rx)
        if not np.isfinite(fid) or abs(fid - 1) > 1e-6:
            f.append(("fidelity", "%s frequencies: state fidelity against the prepared state is %r (%s)" % (src, fid, desc)))
    if snap(base) != s0:
        f.append(("base_changed", "state tomography changed the base circuit (%s)" % desc))
    return {"findings": f, "case": (nq, k), "desc": desc}
