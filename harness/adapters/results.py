"""Replay of LwResults states on real SimulationResult / SamplingResult objects."""
import numpy as np

import lightworks as lw
from lightworks.emulator.results import SamplingResult, SimulationResult


def worker(st, ctx):
    from ..common import library_raised
    try:
        return _worker(st, ctx)
    except Exception as e:  # noqa: BLE001
        if not library_raised(e):
            raise
        return {"findings": [("raised", "%s: %s" % (type(e).__name__, e))], "case": (st["ins"], st["outs0"], st["maps"], ctx["typ"])}


def _worker(st, ctx):
    typ = ctx["typ"]
    ins = [lw.State(list(s)) for s in st["ins"]]
    outs0 = [lw.State(list(s)) for s in st["outs0"]]
    val0 = [[0 if (i + j + 2) % 3 == 0 else 1 + 3 * (i + 1) + (j + 1) for j in range(len(outs0))] for i in range(len(ins))]
    out = {"findings": [], "case": (st["ins"], st["outs0"], st["maps"], typ)}
    f = out["findings"]
    if typ == "counts":
        ins = ins[:1]
        r = SamplingResult({o: val0[0][j] for j, o in enumerate(outs0)}, ins[0])
        for j, o in enumerate(outs0):
            if r[o] != val0[0][j]:
                f.append(("index", "SamplingResult[%s] = %s, built from %s" % (o, r[o], val0[0][j])))
        if list(r.outputs) != outs0 or r.input != ins[0]:
            f.append(("index", "SamplingResult outputs / input differ from what it was built from"))
    else:
        arr = np.array(val0, dtype=complex if typ == "probability_amplitude" else float)
        r = SimulationResult(arr, typ, inputs=ins, outputs=outs0)
        arr[:] = -7          # the caller's buffer is the caller's: refilling it afterwards must not reach the result
        for i, a in enumerate(ins):
            for j, o in enumerate(outs0):
                v = {r[a, o], r[a][o], r.array[i, j]}
                if len(v) != 1 or abs(r[a, o] - val0[i][j]) > 0:
                    f.append(("index", "input %s output %s: pair indexing %s, nested %s, array %s, expected %s" % (a, o, r[a, o], r[a][o], r.array[i, j], val0[i][j])))
        if list(r.inputs) != ins or list(r.outputs) != outs0:
            f.append(("index", "inputs / outputs lists are not in the order given"))
    if f:
        return out
    if typ != "counts" and typ != "probability_amplitude" and len(st["maps"]) >= 1 and not st["rej"]:
        # both mapping kinds applied to the SAME (unmapped) object, one after the other: each answer is that of its own kind
        def image(occ, kind_, inv_):
            return tuple((1 - min(n, 1) if inv_ else min(n, 1)) if kind_ == "threshold" else ((1 - n % 2) if inv_ else n % 2) for n in occ)
        r0 = SimulationResult(np.array(val0, dtype=float), typ, inputs=ins, outputs=outs0)
        for kind_, inv_ in (("threshold", st["maps"][0][1]), ("parity", st["maps"][0][1]), ("threshold", st["maps"][0][1])):
            rm = r0.apply_threshold_mapping(invert=inv_) if kind_ == "threshold" else r0.apply_parity_mapping(invert=inv_)
            want = {}
            for j, o in enumerate(st["outs0"]):
                for i in range(len(ins)):
                    want[(i, image(tuple(o), kind_, inv_))] = want.get((i, image(tuple(o), kind_, inv_)), 0) + val0[i][j]
            got = {(i, tuple(o.s)): rm.array[i, j] for i in range(len(ins)) for j, o in enumerate(rm.outputs)}
            if set(got) != set(want) or any(abs(got[k] - want[k]) > 1e-12 for k in want):
                f.append(("mapping", "%s mapping (invert=%s) applied to an object that had been mapped with the other kind before gives %s, expected %s"
                          % (kind_, inv_, sorted(got.items())[:4], sorted(want.items())[:4])))
                return out
    if typ == "probability_amplitude" and st["maps"]:
        # an amplitude-valued result whose array happens to hold real numbers is still amplitude-valued
        r2 = SimulationResult(np.array(val0, dtype=float), typ, inputs=ins, outputs=outs0)
        kind, inv = st["maps"][0]
        try:
            r2.apply_threshold_mapping(invert=inv) if kind == "threshold" else r2.apply_parity_mapping(invert=inv)
            f.append(("mapping_not_refused", "a %s mapping of an amplitude-valued result (real-valued array) was not refused" % kind))
            return out
        except Exception:  # noqa: BLE001
            pass
    if typ == "probability" and st["maps"] and not st["rej"]:
        # the same content scaled so that every input's total is 1 - 6e-6 (a lossy distribution): mappings are linear per input, totals stay
        tot0 = [float(sum(row)) or 1.0 for row in val0]
        scale = [(1 - 6e-6) / t_ for t_ in tot0]
        rs = SimulationResult(np.array([[v * scale[i] for v in row] for i, row in enumerate(val0)], dtype=float), typ, inputs=ins, outputs=outs0)
        for kind, inv in st["maps"]:
            rs = rs.apply_threshold_mapping(invert=inv) if kind == "threshold" else rs.apply_parity_mapping(invert=inv)
        for i in range(len(ins)):
            if sum(val0[i]) and abs(float(np.sum(rs.array[i])) - (1 - 6e-6)) > 1e-12:
                f.append(("mapping", "after %s an input total of 1 - 6e-6 became %.12f" % (st["maps"], float(np.sum(rs.array[i])))))
                return out
    if typ == "probability" and st["maps"] and not st["rej"]:
        # the small-probability regime (heavy loss, many photons, an unnormalised post-selected table): the same content times 1e-13 and times
        # 1e-30; mappings are linear, so every mapped value is the sum of its pre-images to RELATIVE accuracy - nothing is "numerical noise"
        for tiny in (1e-13, 1e-30):
            rt = SimulationResult(np.array(val0, dtype=float) * tiny, typ, inputs=ins, outputs=outs0)
            for kind, inv in st["maps"]:
                rt = rt.apply_threshold_mapping(invert=inv) if kind == "threshold" else rt.apply_parity_mapping(invert=inv)
            for i in range(len(ins)):
                want_t = float(sum(val0[i])) * tiny
                got_t = float(np.sum(rt.array[i]))
                if abs(got_t - want_t) > 1e-9 * abs(want_t):
                    f.append(("mapping", "values of order %g: after %s the total of input %d is %.6g, the sum of its entries before was %.6g" % (tiny, st["maps"], i, got_t, want_t)))
                    return out
    for n_map, (kind, inv) in enumerate(st["maps"]):
        if (len(st["ins"]) + len(st["outs0"]) + n_map) % 3 == 1:
            inv = np.bool_(inv)              # the flag as a caller may hold it (result of a numpy comparison)
        elif (len(st["ins"]) + len(st["outs0"]) + n_map) % 3 == 2:
            inv = int(inv)
        try:
            r = r.apply_threshold_mapping(invert=inv) if kind == "threshold" else r.apply_parity_mapping(invert=inv)
        except Exception as e:  # noqa: BLE001
            if st["rej"]:
                return out
            f.append(("mapping_raised", "%s mapping raised %s: %s" % (kind, type(e).__name__, e)))
            return out
    if st["rej"]:
        f.append(("mapping_not_refused", "a %s mapping of an amplitude-valued result was not refused" % st["maps"][-1][0]))
        return out
    exp_outs = [tuple(o) for o in st["outs"]]
    if typ == "counts":
        got = {tuple(o.s): n for o, n in dict(r).items()}
        exp = {o: st["val"][0][j] for j, o in enumerate(exp_outs)}
        if got != exp:
            f.append(("mapping", "after %s: %s, expected %s" % (st["maps"], got, exp)))
        return out
    got_outs = [tuple(o.s) for o in r.outputs]
    if sorted(got_outs) != sorted(exp_outs) or len(set(got_outs)) != len(got_outs):
        f.append(("mapping", "after %s outputs %s, expected the images %s" % (st["maps"], got_outs, exp_outs)))
        return out
    for i, a in enumerate(ins):
        for j, o in enumerate(exp_outs):
            so = lw.State(list(o))
            v1, v2, v3 = r[a, so], r[a][so], r.array[i, got_outs.index(o)]
            if not (v1 == v2 == v3 == st["val"][i][j]):
                f.append(("mapping", "after %s: input %s output %s = %s / %s / %s (pair / nested / array), expected %s" % (st["maps"], a, o, v1, v2, v3, st["val"][i][j])))
                return out
    return out
