"""Replay of LwParams behaviours into real Parameter / ParameterDict objects."""
import lightworks as lw

NN = 77
NONE = -99
NAN = 66


def val(x):
    return "text" if x == NN else (float("nan") if x == NAN else x)


def bnd(x):
    return None if x == NONE else val(x)


def code(v):
    if isinstance(v, str):
        return NN
    if isinstance(v, float) and v != v:
        return NAN
    return v


def observe(params, pdict, nkeys):
    par = tuple((code(p.get()), NONE if p.min_bound is None else code(p.min_bound),
                 NONE if p.max_bound is None else code(p.max_bound)) for p in params)
    pd = []
    for k in range(1, nkeys + 1):
        key = "k%d" % k
        if key in pdict:
            obj = pdict[key]
            pd.append(next(i + 1 for i, p in enumerate(params) if p is obj))
        else:
            pd.append(0)
    return par, tuple(pd)


def replay_behaviour(states):
    """states: list of dicts par, pd, last (TLC -simulate behaviour). Returns list of (clause, step, detail)."""
    s0 = states[0]
    params = []
    for (v, lo, hi) in s0["par"]:
        if lo == NONE and hi == NONE:
            params.append(lw.Parameter(val(v)))
        else:
            params.append(lw.Parameter(val(v), bounds=[bnd(lo), bnd(hi)]))
    nkeys = len(s0["pd"])
    pdict = lw.ParameterDict()
    for k, q in enumerate(s0["pd"], 1):
        if q:
            pdict["k%d" % k] = params[q - 1]
    out = []
    if observe(params, pdict, nkeys) != (tuple(tuple(x) for x in s0["par"]), tuple(s0["pd"])):
        out.append(("init", 0, "initial objects do not match the specification's initial state"))
        return out, []
    script = []
    for i, st in enumerate(states[1:], 1):
        name, a, res = st["last"]
        script.append((name, a, res))
        before = observe(params, pdict, nkeys)
        try:
            if name == "set":
                params[a[0] - 1].set(val(a[1]))
            elif name == "setmin":
                params[a[0] - 1].min_bound = bnd(a[1])
            elif name == "setmax":
                params[a[0] - 1].max_bound = bnd(a[1])
            elif name == "dassign":
                pdict["k%d" % a[0]] = val(a[1])
            elif name == "dinsert":
                pdict["k%d" % a[0]] = params[a[1] - 1]
            elif name == "dremove":
                pdict.remove("k%d" % a[0])
            raised = None
        except Exception as e:  # noqa: BLE001
            raised = e
        after = observe(params, pdict, nkeys)
        exp = (tuple(tuple(x) for x in st["par"]), tuple(st["pd"]))
        if res == "rej":
            if raised is None and after != before:
                out.append(("rejected_update_accepted", i, "%s(%s) must be rejected (value would leave its bounds / invalid), but it changed the state to %s"
                            % (name, a, after)))
            elif raised is not None and after != before:
                out.append(("rejected_update_changed_state", i, "%s(%s) raised %s but changed the state" % (name, a, type(raised).__name__)))
        else:
            if raised is not None:
                out.append(("valid_update_rejected", i, "%s(%s) raised %s: %s" % (name, a, type(raised).__name__, raised)))
            elif after != exp:
                out.append(("state", i, "%s(%s): state %s, expected %s" % (name, a, after, exp)))
        # the property itself, on the real objects
        for j, p in enumerate(params):
            v = p.get()
            if p.min_bound is not None and (isinstance(v, str) or not v >= p.min_bound):
                out.append(("out_of_bounds", i, "parameter %d value %r below min bound %r" % (j + 1, v, p.min_bound)))
            if p.max_bound is not None and (isinstance(v, str) or not v <= p.max_bound):
                out.append(("out_of_bounds", i, "parameter %d value %r above max bound %r" % (j + 1, v, p.max_bound)))
        if out:
            break
    return out, script


def sim_worker(path):
    from .. import tlaval
    states = tlaval.sim_states(path, last_only=False)
    f, script = replay_behaviour(states)
    return {"findings": f, "script": script, "init": states[0]["par"] if states else None}


def boundary_probes():
    """values a hair outside a bound (1 ulp .. 1e-9 relative) are outside: the update must be refused and the value stay within its bounds
    (LwParams decides the integer lattice; this is the same rule at floating-point resolution). Returns [(clause, detail)]."""
    import math
    out = []
    for lo, hi in ((0.5, 2.0), (math.pi / 4, 2 * math.pi), (-3.0, -1.0), (1e-3, 1e3)):
        for rel in (2.3e-16, 1e-12, 5e-10, 1e-9):
            for side in ("above", "below"):
                p = lw.Parameter((lo + hi) / 2, bounds=[lo, hi])
                v = hi + abs(hi) * rel if side == "above" else lo - abs(lo) * rel
                if lo <= v <= hi:
                    continue
                pd = lw.ParameterDict()
                pd["a"] = p
                for how, call in (("Parameter.set", lambda: p.set(v)), ("ParameterDict assignment", lambda: pd.__setitem__("a", v))):
                    try:
                        call()
                        accepted = True
                    except Exception:  # noqa: BLE001
                        accepted = False
                    got = p.get()
                    if accepted or not (lo <= got <= hi):
                        out.append(("rejected_update_accepted" if accepted else "out_of_bounds",
                                    "%s(%r) on a parameter bounded to [%r, %r]: %s; value now %r" % (how, v, lo, hi, "accepted" if accepted else "refused but changed", got)))
                        break
    # numbers of other numeric types are numbers: far outside the bounds they are refused like a float would be
    import numpy as np
    from fractions import Fraction
    for v in (np.int64(3), np.int32(-2), np.float32(1.5), Fraction(7, 2), np.float64(-0.25), np.int16(5)):
        p = lw.Parameter(0.5, bounds=[0, 1])
        pd = lw.ParameterDict()
        pd["a"] = p
        for how, call in (("Parameter.set", lambda: p.set(v)), ("ParameterDict assignment", lambda: pd.__setitem__("a", v))):
            try:
                call()
                accepted = True
            except Exception:  # noqa: BLE001
                accepted = False
            if accepted or not (0 <= p.get() <= 1):
                out.append(("rejected_update_accepted", "%s(%r) on a parameter bounded to [0, 1] was accepted; value now %r" % (how, v, p.get())))
                break
    return out
