"""Replay of LwCircuit programs into real lightworks Circuit objects, and the conformance relation
between an implementation Circuit and the specification's abstract circuit (modulo anonymous ancilla
and loss lines)."""
import itertools
import math

import numpy as np

import lightworks as lw

from .. import ring

TOL = 1e-9
RID = {-1: -0.5, 0: 0.0, 1: 0.5, 2: 1.0, 3: 1.5}
LQ = {-1: -0.1, 0: 0.0, 1: 0.5, 2: 1.0, 3: 1.5}


MODE_FORMS = {"k": 0}


def mode_arg(m):
    """the API mode argument for abstract mode m. Valid modes are passed in the three forms the library accepts
    (_mode_in_range: int, numpy integer, integral float), cycling deterministically"""
    if m == 90:
        return True
    if m == 91:
        return 1.5
    if isinstance(m, int) and 0 <= m < 80:
        MODE_FORMS["k"] += 1
        k = MODE_FORMS["k"] % 7
        if k == 3:
            return np.int64(m)
        if k == 5:
            return float(m)
    return m


def phase(pid):
    return pid * math.pi / 4


S = 1 / math.sqrt(2)
UBLOCKS = {
    "H": np.array([[S, S], [S, -S]], dtype=complex),
    "X": np.array([[0, 1], [1, 0]], dtype=complex),
    "Y": np.array([[0, -1j], [1j, 0]], dtype=complex),
    "S": np.array([[1, 0], [0, 1j]], dtype=complex),
    "T": np.array([[1, 0], [0, np.exp(1j * math.pi / 4)]], dtype=complex),
    "SH": np.array([[S, S], [1j * S, -1j * S]], dtype=complex),
    "C3": np.array([[0, 0, 1], [1j, 0, 0], [0, -1, 0]], dtype=complex),
    "B3": np.array([[1, 0, 0], [0, S, S], [0, S, -S]], dtype=complex),
}


# ---------------------------------------------------------------- parameters
class Params:
    """the Parameter objects of one run: parameter p (1-based) has a kind that says how a value id becomes a number"""

    def __init__(self, kinds=(), init=()):
        self.kinds = list(kinds)
        self.objs = [lw.Parameter(self.value(k, v), label=("p%d" % (i + 1) if i % 2 == 0 else None))
                     for i, (k, v) in enumerate(zip(kinds, init))]

    @staticmethod
    def value(kind, v):
        if v == 10:
            return float("nan")           # of numeric type, invalid for every component
        if kind == "phase":
            return "not-a-number" if v == 9 else phase(v)
        return 1.5 if v == 9 else {0: 0.0, 1: 0.5, 2: 1.0}[v]

    def arg(self, x, table):
        """argument value for an API call: literal id -> number, 1000 + p -> the Parameter object"""
        if isinstance(x, int) and 1000 <= x < 2000:
            return self.objs[x - 1001]
        return table(x)

    def set(self, p, v):
        self.objs[p - 1].set(self.value(self.kinds[p - 1], v))

    def pid_of(self, obj):
        for i, o in enumerate(self.objs):
            if o is obj:
                return i + 1
        return None


NOPARAMS = Params()


def ops_compile(ops, pv):
    """Python mirror of LwCircuitDefs.OpsCompile"""
    def res(x):
        return pv[x - 1001] if x >= 1000 else x
    for o in ops:
        if o[0] == "grp":
            if not ops_compile(o[2], pv):
                return False
        elif o[0] == "bs" and res(o[2][0]) not in (0, 1, 2):
            return False
        elif o[0] == "loss" and res(o[2]) not in (0, 1, 2):
            return False
        elif o[0] == "ps" and res(o[2]) not in range(8):
            return False
    return True


def params_of(ops):
    out = set()
    for o in ops:
        if o[0] == "grp":
            out |= params_of(o[2])
        elif o[0] == "bs" and o[2][0] >= 1000:
            out.add(o[2][0] - 1000)
        elif o[0] in ("ps", "loss") and o[2] >= 1000:
            out.add(o[2] - 1000)
    return out


# ---------------------------------------------------------------- scenario objects
def template(n, loss):
    """loss: False / True, or "u" / "lu" for the flavour with a 3-line unitary block on the last three lines (LwCircuit!TmplU)"""
    c = lw.Circuit(n)
    for i in range(1, n + 1):
        c.ps(i - 1, phase(i))
    for i in range(1, n):
        c.bs(i - 1, i, reflectivity=0.5, convention="Rx" if i % 2 == 1 else "H")
    if loss in ("u", "lu") and n >= 3:
        c.add(lw.Unitary(UBLOCKS["C3"].copy()), n - 3)
    if loss in (True, "lu"):
        c.loss(0, 0.5)
    return c


def parent(n):
    c = lw.Circuit(n)
    c.ps(0, phase(3))
    for i in range(1, n):
        c.bs(i - 1, i, reflectivity=0.5)
    return c


def initial_objects(scenario, init_circ, pnu=3, tmpl_loss=False, tnu=(3, 2)):
    """init_circ: the spec's initial circ value (tuple of records)"""
    if scenario == "single":
        return {1: lw.Circuit(init_circ[0]["nu"])}
    if scenario == "pair":
        return {1: lw.Circuit(pnu), 2: lw.Circuit(2)}
    return {1: parent(pnu), 2: template(tnu[0], tmpl_loss), 3: template(tnu[1], tmpl_loss)}


# ---------------------------------------------------------------- observation
def snapshot(c):
    """observable state of a circuit (C08): mode count, unitary, heralds, input size"""
    try:
        ub = c.U_full.copy()
    except Exception as e:  # compile error is part of the observable state
        ub = "ERR " + type(e).__name__
    h = c.heralds
    return Snap((c.n_modes, c.input_modes, tuple(sorted(h["input"].items())), tuple(sorted(h["output"].items())), tuple(sorted(c._internal_modes))), ub)


class Snap:
    """observable state; equality is numerical (1e-9) on the matrix, exact on the rest"""

    def __init__(self, disc, u):
        self.disc = disc
        self.u = u

    def __eq__(self, other):
        if not isinstance(other, Snap) or self.disc != other.disc:
            return False
        if isinstance(self.u, str) or isinstance(other.u, str):
            return isinstance(self.u, str) and isinstance(other.u, str) and self.u == other.u
        return self.u.shape == other.u.shape and bool(np.abs(self.u - other.u).max(initial=0.0) <= TOL)

    def __ne__(self, other):
        return not self.__eq__(other)

    def core(self):
        """what C09 says a rewrite keeps: mode count, input size, heralds, unitary - not which modes are hidden"""
        return Snap(self.disc[:4], self.u)

    __hash__ = None


def user_positions(c):
    internal = set(c._internal_modes)
    return [p for p in range(c.n_modes) if p not in internal]


def conforms(impl, spec_c, spec_sem=None, params=None, compiles=True):
    """None if the implementation circuit conforms to the abstract circuit record, else (clause, detail).
    spec_sem: numpy matrix in the spec's index order (users, ancillas, loss lines) or None.
    params: Params (then get_all_params must list exactly the parameters of the abstract circuit, once each)
    compiles: False when the specification says the current parameter values are invalid for a component"""
    nu = spec_c["nu"]
    anc = list(spec_c["anc"])
    k = len(anc)
    hord = list(spec_c["hord"])
    if impl.n_modes != nu + k:
        return ("n_modes", "n_modes %d, expected %d user + %d ancilla" % (impl.n_modes, nu, k))
    internal = list(impl._internal_modes)
    if len(internal) != k or len(set(internal)) != k:
        return ("ancilla_count", "hidden modes %s, expected %d" % (internal, k))
    users = user_positions(impl)
    if impl.input_modes != nu - len(hord):
        return ("input_modes", "input_modes %d, expected %d" % (impl.input_modes, nu - len(hord)))
    hin = impl.heralds["input"]
    hout = impl.heralds["output"]
    exp_in = {users[h[0] - 1]: h[2] for h in hord}
    exp_out = {users[h[1] - 1]: h[2] for h in hord}
    got_in_user = {p: n for p, n in hin.items() if p not in internal}
    got_out_user = {p: n for p, n in hout.items() if p not in internal}
    if got_in_user != exp_in or got_out_user != exp_out:
        return ("heralds", "user heralds in=%s out=%s, expected in=%s out=%s" % (got_in_user, got_out_user, exp_in, exp_out))
    for p in internal:
        if p not in hin or p not in hout or hin[p] != hout[p]:
            return ("ancilla_herald", "hidden mode %d heralds in=%s out=%s" % (p, hin.get(p), hout.get(p)))
    if sorted(hin[p] for p in internal) != sorted(anc):
        return ("ancilla_herald", "ancilla herald numbers %s, expected %s" % (sorted(hin[p] for p in internal), sorted(anc)))
    if params is not None:
        got = [params.pid_of(x) for x in impl.get_all_params()]
        exp = sorted(params_of(spec_c["ops"]))
        if None in got or sorted(got) != exp:
            return ("all_params", "get_all_params lists %s, expected exactly the parameters %s once each" % (got, exp))
    try:
        V = impl.U_full
    except Exception as e:
        if not compiles:
            return None
        return ("compile", "U_full raised %s: %s" % (type(e).__name__, e))
    if not compiles:
        return ("invalid_value_not_reported", "a parameter value invalid for its component did not surface as a compilation error "
                "(U_full returned a matrix%s)" % (" containing NaN" if np.isnan(V).any() else ""))
    if spec_sem is None:
        return None
    n_full = spec_sem.shape[0]
    if V.shape != (n_full, n_full):
        return ("dim", "U_full is %s, expected %d = modes + one per loss element" % (V.shape, n_full))
    if np.abs(V.conj().T @ V - np.eye(n_full)).max() > TOL:
        return ("unitary", "U_full is not unitary (max dev %.3g)" % np.abs(V.conj().T @ V - np.eye(n_full)).max())
    U = impl.U
    if np.abs(U - V[: nu + k, : nu + k]).max() > TOL:
        return ("leading_block", "U is not the leading block of U_full")
    Sblk = spec_sem[: nu + k, : nu + k]
    for perm in itertools.permutations(range(k)):
        if any(hin[internal[perm[j]]] != anc[j] for j in range(k)):
            continue
        order = users + [internal[perm[j]] for j in range(k)]
        if np.abs(V[np.ix_(order, order)] - Sblk).max() < TOL:
            LAST_ORDER[:] = order
            return None
    return ("U", "transfer matrix differs from the ordered product of the components (no ancilla bijection matches)")


CALIB = [0.0]         # max |evaluator - TLC| over the read results seen by this process


def calibrate_reads(event, res, sc, M):
    """evaluator (ev_reads) vs TLC's exact read result"""
    from .. import ev_reads as er
    name, a = event[1], event[3:]
    ins = tuple(a[0])
    err = 0.0
    if name == "simulate":
        mine = er.sim_table(sc, M, ins)
        for o, v in res.items():
            err = max(err, abs(mine[tuple(o)] - ring.to_complex(v[0]) / np.sqrt(v[1])))
    elif name == "sdist":
        L, table = res
        mine = er.sampler_dist(sc, M, ins)
        for pat, num in (table.items() if isinstance(table, dict) else []):
            err = max(err, abs(mine.get(tuple(pat), 0.0) - exact_prob(num, L)))
    elif name == "analyze":
        L, table = res
        lossy = any(o[0] == "loss" for o in _flat(sc["ops"]))
        mine = er.analyzer_table(sc, M, ins, a[1], lossy)
        if isinstance(table, dict):
            if set(map(tuple, table)) != set(mine):
                return 1.0
            for o, num in table.items():
                err = max(err, abs(mine[tuple(o)] - exact_prob(num, L)))
    elif name == "quick":
        L, table = res
        mine = er.quick_table(sc, M, ins, a[1], a[2])
        if isinstance(table, dict):
            if set(map(tuple, table)) != set(mine):
                return 1.0
            for o, num in table.items():
                err = max(err, abs(mine[tuple(o)] - exact_prob(num, L)))
    return float(err)


def _flat(ops):
    out = []
    for o in ops:
        out += _flat(o[2]) if o[0] == "grp" else [o]
    return out


LAST_ORDER = []      # spec index (users, ancillas) -> implementation position, of the last successful conforms() with a matrix


# ---------------------------------------------------------------- read actions (emulator objects)
def ps_object(ps):
    """rule set (set of (modes, counts)) -> lightworks PostSelection, or None for the empty set"""
    if not ps:
        return None
    obj = lw.PostSelection()
    for modes, counts in sorted(ps):
        obj.add(tuple(modes), tuple(counts))
    return obj


def exact_prob(num, L):
    return ring.to_complex(num).real / L


EARLY = {"obj": None, "circ": None}      # an emulator object created on the target circuit BEFORE the program's construction calls ran


def make_early(c, name):
    """Simulator / Sampler / Analyzer / QuickSampler hold on to the circuit object: created first, used last, they must see the finished circuit"""
    from lightworks import emulator as emu
    EARLY["obj"], EARLY["circ"] = None, None
    try:
        vac = lw.State([0] * c.input_modes)
        obj = {"simulate": lambda: emu.Simulator(c), "sdist": lambda: emu.Sampler(c, vac), "analyze": lambda: emu.Analyzer(c),
               "quick": lambda: emu.QuickSampler(c, vac)}[name]()
        EARLY["obj"], EARLY["circ"] = obj, c
    except Exception:  # noqa: BLE001
        pass


def check_early(c, name, a, ins, exp_fn, state):
    """the same read through the early object; returns list of (clause, detail)"""
    obj = EARLY["obj"]
    if obj is None or EARLY["circ"] is not c:
        return []
    EARLY["obj"] = None
    what = "%s object created before the circuit was built" % type(obj).__name__
    try:
        if name == "simulate":
            r = obj.simulate(state(ins))
            got = {tuple(o.s): r.array[0, j] for j, o in enumerate(r.outputs)}
        elif name == "sdist":
            obj.input_state = state(ins)
            got = {tuple(s.s): p for s, p in obj.probability_distribution.items()}
        elif name == "analyze":
            pso = ps_object(a[1])
            if pso is not None:
                obj.post_selection = pso
            r = obj.analyze(state(ins))
            got = {tuple(o.s): r.array[0, j] for j, o in enumerate(r.outputs)}
        else:
            obj.input_state = state(ins)
            obj.photon_counting = a[2]
            pso = ps_object(a[1])
            if pso is not None:
                obj.post_select = pso
            got = {tuple(s.s): p for s, p in obj.probability_distribution.items()}
    except Exception as e:  # noqa: BLE001
        return [("read_raised/%s/%s" % (name, type(e).__name__), "%s: %s raised %s: %s" % (what, name, type(e).__name__, e))]
    return exp_fn(got, what)


def check_read(c, ev, res, spec_c, order, M=None):
    """execute the read action ev on circuit c and compare with the specification's result `res`.
    returns list of (clause, detail)"""
    from lightworks import emulator as emu
    name, a = ev[1], ev[3:]
    out = []
    ins = list(a[0])
    expect_ok = ev[0] == "ok"
    # res is TLC's exact result, or ("float", payload) from the evaluator (ev_reads) for continuous parameters
    flt = isinstance(res, tuple) and len(res) == 2 and res[0] == "float"
    if flt:
        res = (1, res[1]) if name != "simulate" else res[1]

    def P(num, L):
        return float(num) if flt else exact_prob(num, L)

    made = []

    def state(x):
        st = lw.State(list(x))
        made.append((st, list(x)))
        return st

    try:
        out += _check_read(c, ev, res, spec_c, order, name, a, ins, expect_ok, flt, P, state, M)
    finally:
        pass
    for st, orig in made:
        if st.s != orig or len(st) != len(orig):
            out.append(("read_changed_state", "%s changed a State object passed in: %s -> %s" % (name, orig, st.s)))
    return out


def _check_read(c, ev, res, spec_c, order, name, a, ins, expect_ok, flt, P, state, M=None):
    from lightworks import emulator as emu
    out = []
    try:
        if name == "simulate":
            r = emu.Simulator(c).simulate(state(ins))
            if not expect_ok:
                return [("input_not_rejected", "Simulator.simulate accepted the invalid input %s" % (ins,))]
            got = {tuple(o.s): r.array[0, j] for j, o in enumerate(r.outputs)}
            exp = {tuple(o): (complex(v) if flt else ring.to_complex(v[0]) / np.sqrt(v[1])) for o, v in res.items()}
            if set(got) != set(exp):
                return [("sim_outputs", "outputs %s, expected %s" % (sorted(got), sorted(exp)))]
            for o in exp:
                if abs(got[o] - exp[o]) > TOL:
                    out.append(("amplitude", "amplitude %s -> %s is %s, exact value %s" % (ins, o, got[o], exp[o])))
                    break
            out += check_early(c, name, a, ins, lambda g, what: [("amplitude", "%s: amplitudes differ from the exact values" % what)]
                               if set(g) != set(exp) or any(abs(g[o] - exp[o]) > TOL for o in exp) else [], state)
            # several inputs at once, explicit outputs in a different order: the same amplitudes must come back
            if expect_ok and len(exp) >= 2:
                outs_sorted = sorted(exp, reverse=True)
                other = [o for o in outs_sorted if sum(o) == sum(ins)][:1]
                ins2 = list(other[0]) if other and len(other[0]) == len(ins) else ins
                try:
                    r2 = emu.Simulator(c).simulate([state(ins2), state(ins)], outputs=[state(o) for o in outs_sorted])
                    for j, o in enumerate(outs_sorted):
                        if abs(r2.array[1, j] - exp[o]) > TOL:
                            out.append(("amplitude", "simulate([%s, %s], outputs=...) gives %s -> %s = %s, exact value %s" % (ins2, ins, ins, o, r2.array[1, j], exp[o])))
                            break
                except Exception as e:  # noqa: BLE001
                    out.append(("read_raised/simulate/%s" % type(e).__name__, "simulate with two inputs and explicit outputs raised %s: %s" % (type(e).__name__, e)))
                # an invalid state that is NOT the first of the list must still be rejected
                bad = ins + [0]
                try:
                    emu.Simulator(c).simulate([state(ins), state(bad)], outputs=[state(outs_sorted[0])])
                    out.append(("input_not_rejected", "simulate([valid, %s]) accepted an input of the wrong length in second position" % (bad,)))
                except Exception:  # noqa: BLE001
                    pass
                # ... also a state that is too SHORT, with explicit outputs whose trailing mode is empty
                if len(ins) >= 2 and ins[-1] == 0:
                    short = list(ins[:-1])
                    outs0 = [o for o in outs_sorted if o[-1] == 0 and sum(o) == sum(ins)]
                    if outs0:
                        try:
                            emu.Simulator(c).simulate([state(ins), state(short)], outputs=[state(o) for o in outs0])
                            out.append(("input_not_rejected", "simulate([valid, %s]) computed amplitudes for an input that is one mode too short" % (short,)))
                        except Exception:  # noqa: BLE001
                            pass
            # the other classes of invalid arguments named by the property: they must be refused (by State or by simulate), never computed
            if expect_ok and exp:
                o0 = sorted(exp)[0]
                bad_calls = [("an output with a different photon number", lambda: emu.Simulator(c).simulate(state(ins), outputs=[lw.State([o0[0] + 1] + list(o0[1:]))])),
                             ("an output of the wrong length", lambda: emu.Simulator(c).simulate(state(ins), outputs=[lw.State(list(o0) + [0])])),
                             ("a valid output followed by one with a different photon number",
                              lambda: emu.Simulator(c).simulate(state(ins), outputs=[state(o0), lw.State([o0[0] + 1] + list(o0[1:]))]))]
                if len(ins) >= 1:
                    bad_calls += [("a negative occupation", lambda: emu.Simulator(c).simulate(lw.State([-1] + list(ins[1:])))),
                                  ("a non-integer occupation", lambda: emu.Simulator(c).simulate(lw.State([ins[0] + 0.5] + list(ins[1:])))),
                                  ("a valid input followed by one with a different photon number",
                                   lambda: emu.Simulator(c).simulate([state(ins), lw.State([ins[0] + 1] + list(ins[1:]))], outputs=[state(o0)]))]
                for what, call in bad_calls:
                    try:
                        call()
                        out.append(("input_not_rejected", "Simulator.simulate computed a result for %s (input %s)" % (what, list(ins))))
                    except Exception:  # noqa: BLE001
                        pass
        elif name == "sdist":
            L, table = res
            table = table if isinstance(table, dict) else {}
            nloss = len(c.U_full) - c.n_modes
            exp = {}
            for pat, num in table.items():
                full = [0] * c.n_modes
                for si, pos in enumerate(order):
                    full[pos] = pat[si]
                exp[tuple(full)] = P(num, L)
            dists = {}
            for b in ("permanent", "slos"):
                d = emu.Sampler(c, state(ins), backend=emu.Backend(b)).probability_distribution
                dists[b] = {tuple(s.s): p for s, p in d.items()}
                tol = 1e-9 * (1 + len(exp) * (nloss + 1))
                tot = sum(d.values())
                if any(p < -1e-12 for p in d.values()):
                    out.append(("dist", "%s: negative probability" % b))
                if abs(tot - 1) > tol:
                    out.append(("dist_norm", "%s backend: distribution for input %s sums to %.9f" % (b, ins, tot)))
                for pat in set(exp) | set(dists[b]):
                    if abs(dists[b].get(pat, 0.0) - exp.get(pat, 0.0)) > tol:
                        out.append(("dist", "%s backend: P(%s) = %.9g, exact value %.9g (input %s)" % (b, pat, dists[b].get(pat, 0.0), exp.get(pat, 0.0), ins)))
                        break
            for pat in set(dists["permanent"]) | set(dists["slos"]):
                if abs(dists["permanent"].get(pat, 0.0) - dists["slos"].get(pat, 0.0)) > 1e-8:
                    out.append(("dist_backend_mismatch", "permanent %.9g vs slos %.9g on %s" % (dists["permanent"].get(pat, 0), dists["slos"].get(pat, 0), pat)))
                    break
            out += check_early(c, name, a, ins, lambda g, what: [("dist", "%s: distribution differs from the exact one" % what)]
                               if any(abs(g.get(o, 0.0) - exp.get(o, 0.0)) > 1e-9 * (1 + len(exp) * (nloss + 1)) for o in set(g) | set(exp)) else [], state)
        elif name == "analyze":
            L, table = res
            table = table if isinstance(table, dict) else {}
            an = emu.Analyzer(c)
            pso = ps_object(a[1])
            if pso is not None:
                an.post_selection = pso
            if not table:
                try:
                    an.analyze(state(ins))
                except Exception:  # noqa: BLE001
                    return out          # no accepted output: refusing is fine
                return out
            r = an.analyze(state(ins))
            got = {tuple(o.s): r.array[0, j] for j, o in enumerate(r.outputs)}
            exp = {tuple(o): P(v, L) for o, v in table.items()}
            if set(got) != set(exp):
                return [("analyzer_outputs", "analyzer outputs %s, expected %s" % (sorted(got), sorted(exp)))]
            for o in exp:
                if abs(got[o] - exp[o]) > 1e-8:
                    out.append(("analyzer", "analyzer P(%s -> %s) = %.9g, sampler-exact value %.9g" % (ins, o, got[o], exp[o])))
                    break
            if abs(r.performance - sum(exp.values())) > 1e-8:
                out.append(("performance", "performance %.9g, expected mean accepted total %.9g" % (r.performance, sum(exp.values()))))
            out += check_early(c, name, a, ins, lambda g, what: [("analyzer", "%s: table differs from the sampler-exact one" % what)]
                               if set(g) != set(exp) or any(abs(g[o] - exp[o]) > 1e-8 for o in exp) else [], state)
            # error rate against the first accepted output as the expected one
            # several inputs in ONE call: performance is the mean accepted total, the error rate the mean of the per-input rates
            if M is not None and sum(ins) >= 1:
                from .. import ev_reads as er
                lossy = any(o_[0] == "loss" for o_ in _flat(spec_c["ops"]))
                ins_b = list(reversed(ins))
                if ins_b == list(ins):
                    ins_b = ins_b[1:] + ins_b[:1]
                if ins_b != list(ins):
                    tb = er.analyzer_table(spec_c, M, tuple(ins_b), a[1], lossy)
                    ta_, tb_ = sum(exp.values()), sum(tb.values())
                    if tb and ta_ > 1e-9 and tb_ > 1e-9:
                        ea, eb = sorted(exp)[0], sorted(tb)[0]
                        rm = an.analyze([state(ins), state(ins_b)], expected={state(ins): lw.State(list(ea)), state(ins_b): lw.State(list(eb))})
                        perf = (ta_ + tb_) / 2
                        err = ((1 - exp[ea] / ta_) + (1 - tb[eb] / tb_)) / 2
                        if abs(rm.performance - perf) > 1e-8:
                            out.append(("performance", "two inputs: performance %.9g, expected mean accepted total %.9g" % (rm.performance, perf)))
                        if abs(rm.error_rate - err) > 1e-8:
                            out.append(("error_rate", "two inputs %s, %s: error_rate %.9g, expected mean of per-input rates %.9g" % (ins, ins_b, rm.error_rate, err)))
                        for i_, (inx, tab) in enumerate(((ins, exp), (ins_b, tb))):
                            for j, o in enumerate(rm.outputs):
                                if abs(rm.array[i_, j] - tab.get(tuple(o.s), 0.0)) > 1e-8:
                                    out.append(("analyzer", "two inputs: P(%s -> %s) = %.9g, expected %.9g" % (inx, tuple(o.s), rm.array[i_, j], tab.get(tuple(o.s), 0.0))))
                                    break
            # the same rule set given as a FUNCTION must give the same table
            if a[1]:
                rules = sorted(a[1])
                an2 = emu.Analyzer(c)
                # (the predicate uses the State API, as predicates given to the Sampler may)
                an2.post_selection = lambda s_, rules=rules: s_.n_photons >= 0 and all(sum(s_[m] for m in modes) in counts for modes, counts in rules)
                rl = an2.analyze(state(ins))
                gl = {tuple(o.s): rl.array[0, j] for j, o in enumerate(rl.outputs)}
                if set(gl) != set(exp) or any(abs(gl[o] - exp[o]) > 1e-8 for o in exp):
                    out.append(("analyzer", "post-selection given as a function gives a different table than the equivalent rule set"))
            # the rule object attached while still EMPTY, the rules added afterwards (the object is held by reference)
            if a[1]:
                pso3 = lw.PostSelection()
                an3 = emu.Analyzer(c)
                an3.post_selection = pso3
                for modes_, counts_ in sorted(a[1]):
                    pso3.add(tuple(modes_), tuple(counts_))
                r5 = an3.analyze(state(ins))
                g5 = {tuple(o.s): r5.array[0, j] for j, o in enumerate(r5.outputs)}
                if set(g5) != set(exp) or any(abs(g5[o] - exp[o]) > 1e-8 for o in exp):
                    out.append(("analyzer", "a PostSelection attached while empty and filled afterwards gives a different table than the same rules attached complete"))
            first = sorted(exp)[0]
            tot = sum(exp.values())
            if tot > 1e-9 and len(exp) >= 3:
                # several expected outputs for one input
                two = sorted(exp)[:2]
                r3 = an.analyze(state(ins), expected={state(ins): [lw.State(list(o)) for o in two]})
                er2 = 1 - (exp[two[0]] + exp[two[1]]) / tot
                if abs(r3.error_rate - er2) > 1e-8:
                    out.append(("error_rate", "error_rate %.9g with two expected outputs, expected %.9g" % (r3.error_rate, er2)))
            if tot > 1e-9:
                r2 = an.analyze(state(ins), expected={state(ins): lw.State(list(first))})
                er = 1 - exp[first] / tot
                if abs(r2.error_rate - er) > 1e-8:
                    out.append(("error_rate", "error_rate %.9g, expected %.9g" % (r2.error_rate, er)))
        elif name == "quick":
            L, table = res
            table = table if isinstance(table, dict) else {}
            exp = {tuple(o): P(v, L) for o, v in table.items()}
            exp = {o: p for o, p in exp.items() if p > 1e-9}
            kw = dict(photon_counting=a[2])
            pso = ps_object(a[1])
            if pso is not None:
                kw["post_select"] = pso
            if not exp:
                try:
                    emu.QuickSampler(c, state(ins), **kw).probability_distribution
                except Exception:  # noqa: BLE001
                    return out
                return [("quick", "quick sampler returned a distribution although no output is accepted")]
            d = emu.QuickSampler(c, state(ins), **kw).probability_distribution
            got = {tuple(s.s): p for s, p in d.items()}
            tot = sum(exp.values())
            for o in set(exp) | set(got):
                if abs(got.get(o, 0.0) - exp.get(o, 0.0) / tot) > 1e-8:
                    out.append(("quick", "quick sampler P(%s) = %.9g, conditioned sampler value %.9g" % (o, got.get(o, 0.0), exp.get(o, 0.0) / tot)))
                    break
            out += check_early(c, name, a, ins, lambda g, what: [("quick", "%s: distribution differs from the conditioned sampler distribution" % what)]
                               if any(abs(g.get(o, 0.0) - exp.get(o, 0.0) / tot) > 1e-8 for o in set(g) | set(exp)) else [], state)
            if a[1]:
                pso3 = lw.PostSelection()
                q3 = emu.QuickSampler(c, state(ins), photon_counting=a[2], post_select=pso3)
                for modes_, counts_ in sorted(a[1]):
                    pso3.add(tuple(modes_), tuple(counts_))
                got3 = {tuple(s.s): p for s, p in q3.probability_distribution.items()}
                if any(abs(got3.get(o, 0.0) - exp.get(o, 0.0) / tot) > 1e-8 for o in set(exp) | set(got3)):
                    out.append(("quick", "a PostSelection handed over while empty and filled afterwards gives a different distribution than the same rules handed over complete"))
            # the post-selection given as a function: first a different predicate from the same factory, then the real one
            if a[1]:
                def factory(rules):
                    return lambda s_: s_.n_photons >= 0 and all(sum(s_[m] for m in modes) in counts for modes, counts in rules)
                qs = emu.QuickSampler(c, state(ins), photon_counting=a[2], post_select=factory([]))
                qs.probability_distribution
                qs.post_select = factory(sorted(a[1]))
                got2 = {tuple(s.s): p for s, p in qs.probability_distribution.items()}
                for o in set(exp) | set(got2):
                    if abs(got2.get(o, 0.0) - exp.get(o, 0.0) / tot) > 1e-8:
                        out.append(("quick", "quick sampler with the post-selection given as a function (assigned after an earlier read): P(%s) = %.9g, "
                                             "conditioned sampler value %.9g" % (o, got2.get(o, 0.0), exp.get(o, 0.0) / tot)))
                        break
    except Exception as e:  # noqa: BLE001
        if expect_ok:
            out.append(("read_raised/%s/%s" % (name, type(e).__name__), "%s%s raised %s: %s" % (name, tuple(a), type(e).__name__, e)))
    return out


# ---------------------------------------------------------------- replay
class ArgumentChanged(Exception):
    """a call changed an object owned by the caller (reported like an exception of the call itself)"""


class Drift(Exception):
    """the implementation accepted a call the specification rejects (outside the properties' domain)"""


def apply_event(objs, ev, params=NOPARAMS):
    """execute one call; returns None or raises whatever the library raises"""
    name, t = ev[1], ev[2]
    a = ev[3:]
    P = params
    if name == "bs":
        kw = dict(reflectivity=P.arg(a[2], RID.get), convention=a[3])
        if a[4] != 0:
            kw["loss"] = P.arg(a[4], LQ.get)
        objs[t].bs(mode_arg(a[0]), mode_arg(a[1]), **kw)
    elif name == "ps":
        if a[2] != 0:
            objs[t].ps(mode_arg(a[0]), P.arg(a[1], phase), loss=P.arg(a[2], LQ.get))
        else:
            objs[t].ps(mode_arg(a[0]), P.arg(a[1], phase))
    elif name == "loss":
        objs[t].loss(mode_arg(a[0]), P.arg(a[1], LQ.get))
    elif name == "setpar":
        P.set(a[0], a[1])
    elif name == "copyf":
        objs[t] = objs[a[0]].copy(freeze_parameters=True)
    elif name == "display":
        import matplotlib.pyplot as plt
        c = objs[t]
        nuser = c.n_modes - len(c._internal_modes)
        labels = None if a[3] == 99 else [("m%d" % i if (i + nuser) % 3 else 10 * i) for i in range(nuser + a[3])]      # some labels are numbers
        given = None if labels is None else list(labels)
        try:
            lw.Display(c, display_loss=a[1], mode_labels=labels, display_type=a[0], show_parameter_values=a[2])
            if labels is not None and a[3] == 0:
                if labels != given:
                    raise ArgumentChanged("Display changed the caller's mode_labels list from %s to %s" % (given, labels))
                # the same (unchanged) list must be usable again
                lw.Display(c, display_loss=a[1], mode_labels=labels, display_type=a[0], show_parameter_values=a[2])
        finally:
            plt.close("all")
    elif name == "bar":
        if tuple(a[0]) == (99,):
            objs[t].barrier()
        else:
            arg = list(a[0])
            try:
                objs[t].barrier(arg)
            finally:
                arg.clear()         # the caller's list is the caller's: changing it afterwards must not reach the circuit
    elif name == "swap":
        arg = dict(zip(a[0], a[1]))
        try:
            objs[t].mode_swaps(arg)
        finally:
            arg.clear()             # same for the swap dictionary
    elif name == "u":
        arr = UBLOCKS[a[1]].copy()
        try:
            objs[t].add(lw.Unitary(arr), mode_arg(a[0]))
        finally:
            arr[:] = 0              # ... and for the matrix handed to Unitary
    elif name == "herald":
        # the documented short form herald(n, mode) means "same mode at input and output": used whenever it applies
        if a[1] == a[2] and a[1] >= 0:
            objs[t].herald(a[0], mode_arg(a[1]))
        else:
            objs[t].herald(a[0], mode_arg(a[1]), mode_arg(a[2]))
    elif name == "add":
        MODE_FORMS["names"] = MODE_FORMS.get("names", 0) + 1
        if a[2] and MODE_FORMS["names"] % 4 == 0:
            objs[t].add(objs[a[0]], mode_arg(a[1]), group=a[2], name=("" if MODE_FORMS["names"] % 8 == 0 else "a rather long group name"))    # names are free text
        else:
            objs[t].add(objs[a[0]], mode_arg(a[1]), group=a[2])
    elif name == "plus":
        objs[t] = objs[a[0]] + objs[a[1]]
    elif name == "copy":
        objs[t] = objs[a[0]].copy()
    elif name == "probeall":
        c = objs[t]
        for m in range(c.n_modes - len(c._internal_modes)):
            c.ps(mode_arg(m), phase((2 * (m + 1) + 1) % 8))
    elif name == "edit":
        objs[t].ps(0, phase(2))
    elif name == "unpack":
        objs[t].unpack_groups()
    elif name == "compress":
        objs[t].compress_mode_swaps()
    elif name == "nonadj":
        objs[t].remove_non_adjacent_bs()
    else:
        raise ValueError("unknown event %r" % (ev,))


def has_group(spec):
    from lightworks.sdk.circuit.components import Group
    return any(isinstance(s, Group) for s in spec)


def non_adjacent_bs(spec):
    from lightworks.sdk.circuit.components import BeamSplitter, Group
    for s in spec:
        if isinstance(s, Group):
            if non_adjacent_bs(s.circuit_spec):
                return True
        elif isinstance(s, BeamSplitter) and abs(s.mode_1 - s.mode_2) != 1:
            return True
    return False


def structure(c):
    """the component list itself (types, modes, values, parameter identities, nesting) - what a read-only call must leave alone"""
    import dataclasses
    import numpy as np
    from lightworks.sdk.circuit.components import Group

    def val(v):
        if isinstance(v, np.ndarray):
            return ("arr", v.shape, v.tobytes())
        if isinstance(v, lw.Parameter):
            return ("par", id(v), repr(v.get()))
        if isinstance(v, dict):
            return tuple(sorted((repr(k), val(x)) for k, x in v.items()))
        if isinstance(v, (list, tuple)):
            return tuple(val(x) for x in v)
        return repr(v)

    def walk(spec):
        out = []
        for comp in spec:
            if isinstance(comp, Group):
                out.append(("Group", comp.name, comp.mode_1, comp.mode_2, val(comp.heralds), walk(comp.circuit_spec)))
            else:
                out.append((type(comp).__name__,) + tuple((f.name, val(getattr(comp, f.name))) for f in dataclasses.fields(comp)))
        return tuple(out)
    return walk(c._Circuit__circuit_spec if hasattr(c, "_Circuit__circuit_spec") else c._get_circuit_spec())


def replay(prog, objs, expected_circ=None, expected_sem=None, params=NOPARAMS, pval=None, numeric=False):
    """Step a program through real objects.
    Returns list of findings: (clause, step_index, detail).  Clauses:
      valid_call_raised, arg_mutated, reject_changed_state, rewrite_changed, rewrite_structure,
      and, at the end, the conformance clauses of `conforms` for every live object."""
    out = []
    MODE_FORMS["k"] = len(prog) + sum(len(e) for e in prog)        # deterministic per program
    for i, ev in enumerate(prog):
        if ev[1] in ("simulate", "sdist", "analyze", "quick"):
            continue            # read actions are executed after the final conformance check (they need the index map)
        before = {o: snapshot(c) for o, c in objs.items()}
        nspec = None
        if ev[1] == "compress":
            nspec = len(objs[ev[2]]._get_circuit_spec())
        struct0 = {o: structure(c) for o, c in objs.items()} if ev[1] == "display" else None
        try:
            apply_event(objs, ev, params)
            raised = None
        except Exception as e:  # noqa: BLE001
            raised = e
        after = {o: snapshot(c) for o, c in objs.items()}
        tgt = ev[2]
        if ev[0] == "ok" and raised is not None:
            out.append(("valid_call_raised", i, "%s raised %s: %s" % (ev, type(raised).__name__, raised)))
            for o in before:
                if before[o] != after.get(o):
                    out.append(("reject_changed_state", i, "call %s raised %s but object %d changed" % (ev, type(raised).__name__, o)))
            return out
        if ev[0] == "rej":
            if raised is None:
                if ev[1] == "display":
                    out.append(("display_not_rejected", i, "%s was not rejected" % (ev,)))
                    continue
                raise Drift("step %d %s accepted by the implementation" % (i, ev))
            if ev[1] == "display" and type(raised).__name__ != "DisplayError":
                out.append(("display_not_rejected", i, "%s raised %s instead of DisplayError" % (ev, type(raised).__name__)))
            for o in before:
                if before[o] != after.get(o):
                    out.append(("reject_changed_state", i, "rejected call %s changed object %d" % (ev, o)))
            continue
        if ev[1] == "setpar":
            for o in before:       # circuits that do not mention the parameter must not notice
                if expected_circ is not None and ev[3] not in params_of(expected_circ[o - 1]["ops"]) and before[o] != after[o]:
                    out.append(("arg_mutated", i, "Parameter.set %s changed object %d which does not use it" % (ev, o)))
            continue
        if ev[1] == "display" and before[tgt] != after[tgt]:
            out.append(("display_changed", i, "display %s changed the circuit" % (ev,)))
        if ev[1] == "display" and struct0 is not None:
            for o in struct0:
                if o in objs and structure(objs[o]) != struct0[o]:
                    out.append(("display_changed", i, "display %s changed the component list of object %d" % (ev, o)))
        for o in before:
            if o != tgt and before[o] != after[o]:
                out.append(("arg_mutated", i, "call %s changed object %d (not its target)" % (ev, o)))
        if ev[1] in ("unpack", "compress", "nonadj"):
            if before[tgt].core() != after[tgt].core():
                out.append(("rewrite_changed", i, "%s changed the observable state of object %d" % (ev[1], tgt)))
            spec = objs[tgt]._get_circuit_spec()
            if ev[1] == "unpack" and has_group(spec):
                out.append(("rewrite_structure", i, "group remains after unpack_groups"))
            if ev[1] == "nonadj" and non_adjacent_bs(spec):
                out.append(("rewrite_structure", i, "non-adjacent beam splitter remains"))
            if ev[1] == "compress" and len(spec) > nspec:
                out.append(("rewrite_structure", i, "component count grew under swap compression"))
        if ev[1] == "copy":
            if after[tgt] != before[ev[3]]:
                out.append(("rewrite_changed", i, "copy differs from the original"))
    if expected_circ is not None:
        for o, c in objs.items():
            sc = expected_circ[o - 1]
            if sc["nu"] < 0:
                continue
            sm = None
            if expected_sem is not None and expected_sem[o - 1] != ():
                sm = ring.mat_to_np(expected_sem[o - 1])
            comp = ops_compile(sc["ops"], pval) if pval else True
            r = conforms(c, sc, sm, params if params.objs else None, comp)
            if r:
                out.append((r[0], len(prog) - 1, "object %d: %s" % (o, r[1])))
    return out


def replay_read(prog, objs, expected_circ, sem_np, res):
    """the terminal read action of a program: compare with the specification's result and check the frame"""
    out = []
    ev = prog[-1]
    t = ev[2]
    sc = expected_circ[t - 1]
    r = conforms(objs[t], sc, sem_np)
    if r:
        return [(r[0], len(prog) - 1, "object %d: %s" % (t, r[1]))]
    order = list(LAST_ORDER)
    before = {o: snapshot(c) for o, c in objs.items()}
    if ev[0] == "ok" and sem_np is not None and isinstance(res, (dict, tuple)) and res != ():
        CALIB[0] = max(CALIB[0], calibrate_reads(ev, res, sc, sem_np))
    for clause, detail in check_read(objs[t], ev, res, sc, order, sem_np):
        out.append((clause, len(prog) - 1, detail))
    after = {o: snapshot(c) for o, c in objs.items()}
    for o in before:
        if before[o] != after[o]:
            out.append(("read_changed_state", len(prog) - 1, "%s changed the observable state of circuit %d" % (ev[1], o)))
    return out


# ---------------------------------------------------------------- positional model (LwAddPos): field-by-field comparison
def positional(c):
    """the implementation's private bookkeeping in the shape of LwAddPos' positional circuit record"""
    from lightworks.sdk.circuit import components as K

    def walk(spec):
        out = []
        for comp in spec:
            if isinstance(comp, K.Group):
                out.append(("grp", (), walk(comp.circuit_spec)))
            elif isinstance(comp, K.BeamSplitter):
                out.append(("bs", (comp.mode_1, comp.mode_2)))
            elif isinstance(comp, K.ModeSwaps):
                out.append(("perm", tuple(comp.swaps.keys()), tuple(comp.swaps.values())))
            elif isinstance(comp, K.Barrier):
                out.append(("bar", tuple(comp.modes)))
            else:
                out.append(({"PhaseShifter": "ps", "Loss": "loss", "UnitaryMatrix": "u"}.get(type(comp).__name__, type(comp).__name__), (comp.mode,)))
        return tuple(out)
    h = c.heralds
    return {"n": c.n_modes, "im": tuple(c._internal_modes), "inH": tuple(h["input"].items()), "outH": tuple(h["output"].items()),
            "ops": walk(c._Circuit__circuit_spec)}


def positional_of_spec(pc):
    def walk(ops):
        out = []
        for o in ops:
            if o[0] == "grp":
                out.append(("grp", (), walk(o[2])))
            elif o[0] == "perm":
                out.append(("perm", tuple(o[1]), tuple(o[2])))
            else:
                out.append((o[0], tuple(o[1])))
        return tuple(out)
    return {"n": pc["n"], "im": tuple(pc["im"]), "inH": tuple(tuple(kv) for kv in pc["inH"]), "outH": tuple(tuple(kv) for kv in pc["outH"]),
            "ops": walk(pc["ops"])}


def positional_diff(c, pc):
    """None when the object's bookkeeping equals the positional model's record, else the first differing field"""
    a, b = positional(c), positional_of_spec(pc)
    for k in ("n", "im", "inH", "outH", "ops"):
        if a[k] != b[k]:
            return "%s: implementation %r, positional model %r" % (k, a[k], b[k])
    return None


# ---------------------------------------------------------------- dump worker (spec -> code)
def dump_worker(st, ctx):
    """replay one TLC state (program + expected abstract state); returns a result dict"""
    from .. import ev
    prog = st["prog"]
    circ = st["circ"]
    semv = st.get("sem")
    res = {"prog": prog, "findings": [], "drift": None, "calib": 0.0, "op": st.get("op"), "ctx": ctx,
           "init": ({"kind": "tmpl", "pnu": ctx.get("pnu", 3), "loss": ctx.get("tmpl_loss", False), "tnu": tuple(ctx.get("tnu", (3, 2)))} if ctx["scenario"] == "tmpl"
                    else {"kind": "sizes", "sizes": [ctx.get("pnu", 3), 2]} if ctx["scenario"] == "pair"
                    else {"kind": "sizes", "sizes": [circ[0]["nu"]]})}
    objs = initial_objects(ctx["scenario"], circ, ctx.get("pnu", 3), ctx.get("tmpl_loss", False), tuple(ctx.get("tnu", (3, 2))))
    pval = st.get("pval") or ()
    params = Params(ctx.get("parkinds", ()), ctx.get("parinit", ()))
    exp_sem = None
    if ctx.get("numeric") and semv is not None:
        exp_sem = semv
        # calibration of the evaluator against TLC's exact matrices
        for o, c in enumerate(circ):
            if c["nu"] >= 0 and semv[o] != ():
                d = np.abs(ev.sem(c, pv=pval) - ring.mat_to_np(semv[o])).max()
                res["calib"] = max(res["calib"], float(d))
    else:
        # structure decided by TLC, numbers by the (calibrated) evaluator
        exp_sem = None
    if prog and prog[-1][1] in ("simulate", "sdist", "analyze", "quick") and prog[-1][0] == "ok" and prog[-1][2] in objs:
        make_early(objs[prog[-1][2]], prog[-1][1])
    else:
        EARLY["obj"] = None
    try:
        f = replay(prog, objs, circ, exp_sem, params, pval)
        if exp_sem is None and not f:
            for o, c in objs.items():
                sc = circ[o - 1]
                if sc["nu"] < 0:
                    continue
                comp = ops_compile(sc["ops"], pval)
                r = conforms(c, sc, ev.sem(sc, pv=pval) if comp else None, params if params.objs else None, comp)
                if r:
                    f.append((r[0], len(prog) - 1, "object %d: %s" % (o, r[1])))
        if prog and prog[-1][1] in ("simulate", "sdist", "analyze", "quick") and not f:
            t = prog[-1][2]
            sm = ring.mat_to_np(semv[t - 1]) if (semv is not None and semv[t - 1] != ()) else ev.sem(circ[t - 1], pv=pval)
            f += replay_read(prog, objs, circ, sm, st.get("res"))
            res["calib"] = max(res["calib"], CALIB[0])
        res["findings"] = f
        if st.get("pc") is not None:
            # the implementation-shaped model: a difference is DRIFT (the refinement proof of LwAddPos then no longer speaks about this
            # code), never a violation by itself - private bookkeeping may be reorganised freely as long as the behaviour conforms
            res["pos"] = "match"
            for o, c in objs.items():
                d = positional_diff(c, st["pc"][o - 1])
                if d:
                    res["pos"] = "object %d %s" % (o, d)
                    res["drift"] = "positional model LwAddPos: program %r: object %d %s" % (prog, o, d)
                    break
    except Drift as d:
        res["drift"] = str(d)
    return res


# ---------------------------------------------------------------- abstract records of the scenario objects
def template_record(n, loss):
    ops = [("ps", (i,), i) for i in range(1, n + 1)]
    ops += [("bs", (i, i + 1), (1, "Rx" if i % 2 == 1 else "H")) for i in range(1, n)]
    if loss in ("u", "lu") and n >= 3:
        ops.append(("u", (n - 2, n - 1, n), "C3"))
    if loss in (True, "lu"):
        ops.append(("loss", (1,), 1))
    return {"nu": n, "anc": (), "hord": (), "ops": tuple(ops)}


def parent_record(n):
    ops = [("ps", (1,), 3)] + [("bs", (i, i + 1), (1, "Rx")) for i in range(1, n)]
    return {"nu": n, "anc": (), "hord": (), "ops": tuple(ops)}
