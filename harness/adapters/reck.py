"""Reck mapping: replay of LwReck monomial cases and the contract on arbitrary unitaries / error models."""
import itertools
import math

import numpy as np

from .. import ring

TWO_PI = 2 * math.pi


def structure(mapped):
    """returns (ok, detail, phases, reflectivities, losses) from the mapped circuit's components"""
    from lightworks.sdk.circuit.components import Barrier, BeamSplitter, Loss, PhaseShifter
    phases, refl, losses = [], [], []
    for comp in mapped._get_circuit_spec():
        if isinstance(comp, Barrier):
            continue
        if isinstance(comp, PhaseShifter):
            phases.append(float(comp.phi))
        elif isinstance(comp, BeamSplitter):
            if abs(comp.mode_1 - comp.mode_2) != 1:
                return False, "beam splitter on non-adjacent modes %d,%d" % (comp.mode_1, comp.mode_2), phases, refl, losses
            refl.append(float(comp.reflectivity))
        elif isinstance(comp, Loss):
            losses.append(float(comp.loss))
        else:
            return False, "unexpected component %s" % type(comp).__name__, phases, refl, losses
    return True, "", phases, refl, losses


def check_mapping(circ, mapped, what):
    """contract with the default error model"""
    out = []
    ok, detail, phases, refl, losses = structure(mapped)
    if not ok:
        out.append(("structure", "%s: %s" % (what, detail)))
    U0, U1 = circ.U, mapped.U
    if U1.shape != U0.shape or np.abs(U0 - U1).max() > 1e-10:          # "to numerical precision": the library's own unitary_precision
        out.append(("unitary", "%s: mapped circuit differs from the original by %.3g" % (what, np.abs(U0 - U1).max() if U1.shape == U0.shape else -1)))
    if mapped.heralds != circ.heralds:
        out.append(("heralds", "%s: heralds %s, original %s" % (what, mapped.heralds, circ.heralds)))
    badp = [p for p in phases if not (0 <= p < TWO_PI)]
    if badp:
        out.append(("phase_range", "%s: programmed phase %r outside [0, 2 pi)" % (what, badp[0])))
    return out


def worker(st, ctx):
    """one monomial matrix of LwReck with the model's programmed (theta, phi) per cell"""
    import lightworks as lw
    from lightworks import interferometers as itf
    if not st["done"]:
        return None
    U = ring.mat_to_np(st["U0"])
    n = U.shape[0]
    res = {"findings": [], "drift": None, "case": [[str(np.round(x, 3)) for x in row] for row in U]}
    c = lw.Unitary(U)
    before = (c.n_modes, c.heralds, c.U_full.copy())
    try:
        mapped = itf.Reck().map(c)
    except Exception as e:  # noqa: BLE001
        res["findings"].append(("raised", "Reck.map raised %s: %s" % (type(e).__name__, e)))
        return res
    if (c.n_modes, c.heralds) != before[:2] or np.abs(c.U_full - before[2]).max() > 0:
        res["findings"].append(("argument_changed", "Reck.map changed the circuit passed in"))
    res["findings"] += check_mapping(c, mapped, "monomial %dx%d" % (n, n))
    # decision level: programmed phases per cell vs the model (units of pi/2), in schedule order
    ok, _, phases, _, _ = structure(mapped)
    sched = [(i, j) for i in range(n - 1) for j in range(n - 1 - i)]
    exp = []
    for ij in sched:
        th, ph = st["phase"][ij]
        exp += [ph * math.pi / 2, th * math.pi / 2]
    got = phases[: len(exp)]
    if len(got) == len(exp) and any(abs(((g - e + math.pi) % TWO_PI) - math.pi) > 1e-8 for g, e in zip(got, exp)):
        res["drift"] = "programmed cell phases %s, model %s" % (np.round(got, 4).tolist(), np.round(exp, 4).tolist())
    return res


def special_unitaries(rng, n_haar, max_modes):
    """identity, permutations, DFT, block diagonal, near-degenerate, Haar random"""
    import lightworks as lw
    out = []
    for n in range(2, 8):
        out.append(("identity %d" % n, np.eye(n, dtype=complex)))
    for n in (2, 3, 4):
        for p in itertools.permutations(range(n)):
            M = np.zeros((n, n), dtype=complex)
            for j, i in enumerate(p):
                M[i, j] = 1
            out.append(("permutation %s" % (p,), M))
    for n in (2, 3, 5, 8):
        w = np.exp(2j * math.pi / n)
        out.append(("dft %d" % n, np.array([[w ** (i * j) for j in range(n)] for i in range(n)]) / math.sqrt(n)))
    for n in (4, 6):
        A = lw.random_unitary(n // 2, seed=rng.randint(0, 10 ** 6))
        B = lw.random_unitary(n - n // 2, seed=rng.randint(0, 10 ** 6))
        M = np.zeros((n, n), dtype=complex)
        M[: n // 2, : n // 2] = A
        M[n // 2:, n // 2:] = B
        out.append(("block diagonal %d" % n, M))
    for eps in (1e-6, 1e-9, 1e-12, 1e-15, 1e-19, 1e-21):
        for n in (3, 4):
            # a permutation rotated by a tiny angle between two modes: entries of size eps around the 1e-20 branch threshold
            p = list(range(n))
            rng.shuffle(p)
            M = np.zeros((n, n), dtype=complex)
            for j, i in enumerate(p):
                M[i, j] = np.exp(1j * rng.uniform(0, TWO_PI))
            R = np.eye(n, dtype=complex)
            a, b = rng.sample(range(n), 2)
            R[a, a] = R[b, b] = math.cos(eps)
            R[a, b] = -math.sin(eps)
            R[b, a] = math.sin(eps)
            out.append(("near-degenerate eps=%g n=%d" % (eps, n), R @ M))
    for k in range(n_haar):
        n = rng.randint(2, max_modes)
        out.append(("haar %d seed %d" % (n, k), lw.random_unitary(n, seed=rng.randint(0, 10 ** 6))))
    return out
