#!/usr/bin/env python3
"""tools/seeded_table.py - markdown table of every seeded change (for DESIGN 0.6): what it is, which clause of which check
reported it in the latest evaluation, and the honest first-pass outcome."""
import glob, json, os, re
os.chdir("/verif")
rows = []
for p in sorted(glob.glob("seeded/*/meta.json")):
    m = json.load(open(p))
    sid = os.path.basename(os.path.dirname(p))
    lines = [l for l in m.get("needs_to_manifest", "").split("\n") if l.strip()]
    title = re.sub(r"^#\s*", "", lines[0]) if lines else ""
    title = re.sub(r"^C\d\d\s*/\s*m\d\s*[-–]\s*", "", title)
    title = re.sub(r"^m\d\s*[-–—]\s*", "", title)
    clause = ""
    for chk, r in m.get("checks_run", {}).items():
        if r.get("exit") == 1:
            cl = [l.strip() for l in r.get("lines", []) if l.strip().startswith("clause=")]
            clause = "%s: %s" % (chk, (cl[0][7:] if cl else "violation")[:150].replace("|", "/"))
            break
    fp = m.get("first_pass") or {}
    fpx = fp.get("exits", {})
    if not m.get("checks_run"):
        hist = "not yet evaluated"
    elif fp and fp.get("detected_by"):
        hist = "detected on the first pass"
    elif fp and any(v == 2 for v in fpx.values()):
        hist = "first pass: exit 2 (library exception escaped the adapter as a machinery failure); detected after the adapters were guarded" if m.get("detected_by") else "first pass exit 2; still not detected"
    elif fp:
        hist = "first pass MISSED; detected after strengthening" if m.get("detected_by") else "MISSED (see text)"
    else:
        hist = "detected" if m.get("detected_by") else "MISSED"
    note = m.get("history_note")
    if note:
        hist += "; " + note
    rows.append("| %s | %s | %s | %s |" % (sid, title[:110].replace("|", "/"), clause or "-", hist))
det = sum(1 for p in glob.glob("seeded/*/meta.json") if json.load(open(p)).get("detected_by"))
table = "| seeded change | what it is | failing clause reported by the check (latest evaluation) | history |\n|---|---|---|---|\n" + "\n".join(rows)
table += "\n\n%d seeded changes, %d detected by the quick tier in the latest evaluation.\n" % (len(rows), det)
import sys
if "--update-design" in sys.argv:
    d = open("DESIGN.md").read()
    a = d.index("<!-- seeded-table:begin -->") + len("<!-- seeded-table:begin -->")
    b = d.index("<!-- seeded-table:end -->")
    open("DESIGN.md", "w").write(d[:a] + "\n" + table + d[b:])
    print("DESIGN.md updated: %d rows, %d detected" % (len(rows), det))
else:
    print(table)
