#!/venv/bin/python
"""measure the state count of a property config: tools/size.py c08 reuse_rejects [timeout] [key=value overrides]"""
import sys, re; sys.path.insert(0, '/verif')
import importlib
from harness import tlc
from harness.props import circuit_common as cc
mod = importlib.import_module('harness.props.' + sys.argv[1])
c = mod.config(sys.argv[2])
to = int(sys.argv[3]) if len(sys.argv) > 3 else 60
for kv in sys.argv[4:]:
    k, v = kv.split('=', 1); c[k] = eval(v)
wd = tlc.workdir('size'); tlc.copy_specs(wd, cc.MODULES); tlc.write_mc(wd, 'MC', 'LwCircuit', c)
tlc.write_cfg(wd, 'MC', c, invariants=['InputModesInv'], properties=[])
r = tlc.run(wd, 'MC', timeout=to)
prog = re.findall(r'Progress\(\d+\).*?: ([\d,]+) states generated.*?([\d,]+) states left', r.out)
print('rc', r.rc, 'timed_out', r.timed_out, 'distinct', r.distinct, 'depth', r.depth, 'wall %.1f' % r.wall, prog[-1:] )
tlc.cleanup('size')
