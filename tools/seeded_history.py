#!/usr/bin/env python3
"""tools/seeded_history.py - adds to every seeded/<id>/meta.json the result of the FIRST evaluation that was committed
(field first_pass), so that later re-evaluations with strengthened checks do not erase the honest first-pass outcome."""
import glob, json, os, subprocess
os.chdir("/verif")
rows = []
for p in sorted(glob.glob("seeded/*/meta.json")):
    revs = subprocess.run(["git", "log", "--format=%H", "--reverse", "--", p], stdout=subprocess.PIPE, text=True).stdout.split()
    meta = json.load(open(p))
    first = None
    for r in revs:
        try:
            m0 = json.loads(subprocess.run(["git", "show", "%s:%s" % (r, p)], stdout=subprocess.PIPE, text=True).stdout)
        except Exception:
            continue
        if m0.get("checks_run"):
            first = {"commit": r[:7], "detected_by": m0.get("detected_by", []),
                     "exits": {k: v.get("exit") for k, v in m0["checks_run"].items()}}
            break
    if first and "first_pass" not in meta:
        meta["first_pass"] = first
        json.dump(meta, open(p, "w"), indent=1)
    fp = meta.get("first_pass", {})
    rows.append((os.path.basename(os.path.dirname(p)), fp.get("detected_by"), fp.get("exits"), meta.get("detected_by")))
for r in rows:
    print(*r)
