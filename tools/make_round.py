#!/usr/bin/env python3
"""tools/make_round.py <root> <mA> <mB> <Cxx>...   - prepares one round of independent seeded changes:
a scratch worktree of /repo per property under <root>/<Cxx> and the prompt for a fresh sub-agent in <root>/prompt_<Cxx>.txt
(only the property's text, the worktree and the one-line descriptions of the earlier changes to avoid - nothing from /verif).
Before the agents report, copy /verif to a snapshot and evaluate blind from it:
   EVAL_REPO=<root>/<Cxx> VERIF_RUN_DIR=<snapshot> MUT_ROOT=<root> python3 tools/eval_mutant.py <Cxx> <mN>
then `git -C /repo worktree remove --force <root>/<Cxx>` for every property."""
import glob, json, os, re, subprocess, sys
root, ma, mb = sys.argv[1], sys.argv[2], sys.argv[3]
ids = sys.argv[4:]
props = {json.loads(l)["id"]: json.loads(l) for l in open("/verif/properties.jsonl")}
os.makedirs(root, exist_ok=True)
for c in ids:
    wt = "%s/%s" % (root, c)
    if not os.path.exists(wt):
        subprocess.run(["git", "-C", "/repo", "worktree", "add", "--detach", wt, "HEAD"], check=True, stdout=subprocess.DEVNULL, stderr=subprocess.DEVNULL)
    os.makedirs(wt + "/MUTANTS", exist_ok=True)
    p = props[c]
    prev = []
    for mp in sorted(glob.glob("/verif/seeded/%s-*/meta.json" % c)):
        m = json.load(open(mp))
        lines = [l for l in m.get("needs_to_manifest", "").split("\n") if l.strip()]
        prev.append("- " + (re.sub(r"^#\s*", "", lines[0]) if lines else "")[:160])
    txt = f"""You are helping to evaluate a verification framework for the Python library Aegiq/lightworks (photonic circuit SDK + emulator). You have your own scratch git worktree of the library at {wt} (work ONLY there; never touch /repo or /verif, never read /verif; do not use `git stash`, it is shared between worktrees). Python: /venv/bin/python with PYTHONPATH={wt}. Test suite: `cd {wt} && PYTHONPATH={wt} /venv/bin/python -m pytest -q -p no:cacheprovider -n 4 tests` (663 tests pass on the clean tree). No network.

Here is one semantic property that the library is supposed to satisfy:

id: {c}
title: {p['title']}
statement: {p['statement']}
quantifier: {json.dumps(p['quantifier'])}
why tests can't settle it: {p['why_tests_cant']}
anchors: {json.dumps(p['anchors'])}

TASK: write TWO independent changes (mutants) to the library source (under lightworks/) that each BREAK this property, while the library still imports and ALL 663 repository tests still pass. Each change must look like a plausible maintainer edit (an optimisation, a refactoring, a shortcut, a cache, an 'equivalent' rewrite, a tolerance, an off-by-one) and must need something SPECIFIC to manifest: a particular multi-step sequence of operations, an unusual-but-valid input, a specific size/shape/position, a particular numeric regime, an object that outlives a change, or two cooperating sites that each look fine alone. NOT something ordinary use would expose at once. Prefer code paths and trigger conditions that are different from each other and different from these earlier changes already written for this property (avoid duplicates of them):
{chr(10).join(prev)}

For each mutant N in ({ma}, {mb}) create the directory {wt}/MUTANTS/<mN>/ containing:
- patch.diff : `git diff` of ONLY that change against the clean worktree HEAD (must apply with `git apply` on a clean tree; paths relative to repo root);
- demo.py : a standalone program (run as `/venv/bin/python demo.py` with PYTHONPATH set to the worktree) that checks the property on the triggering scenario against a reference YOU compute independently (plain numpy / by hand), exits 0 when the property holds (clean tree) and exits 1 (printing what differs) when it is violated (with the patch);
- notes.md : first line `# <mN> - <one-line description of the change>`; then what it breaks, exactly what is needed for it to manifest, and why the existing tests do not notice.

Procedure for each: make the edit, run demo.py (must exit 1), run the full test suite (must be 663 passed), save `git diff > MUTANTS/<mN>/patch.diff`, then `git checkout -- lightworks` so the worktree is clean again, run demo.py (must exit 0). Leave the worktree CLEAN at the end (git status shows only the untracked MUTANTS directory).

Finally, if while reading the code you notice that the UNMODIFIED library already violates this property for some input or history, describe it with a reproducer in {wt}/MUTANTS/FINDINGS.md (optional).

Reply with a short summary: for each mutant the one-line description, the trigger, and confirmation of demo exit codes and test results."""
    open("%s/prompt_%s.txt" % (root, c), "w").write(txt)
    print("prepared", wt)
