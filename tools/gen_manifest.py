#!/usr/bin/env python3
"""Regenerates MANIFEST.json from the table below (single source of truth for the interface)."""
import json, os
ROOT = os.path.dirname(os.path.dirname(os.path.abspath(__file__)))
ALL = ["C%02d" % i for i in range(1, 20)]
TB = "TLC 1.8 + CommunityModules; the TLA+ value parser/printer; numpy; the evaluator ev.py (re-calibrated against TLC's exact values on every run)"
CHECKS = {
 "C02": dict(
   level="model_checking", design="DESIGN.md section 5 C02",
   text="LwCircuit identifies modes by identity (lines) instead of position, so its Add action is the property's own wording; TLC checks AncillaPrivate, frames, unitarity and compositional = flattened semantics on every program of the marked-template scopes (all herald (in,out) pairs, both declaration orders, photon numbers 0/1, all start modes, grouped or not, nested), and the programs (TLC dump and TLC -simulate behaviours) are replayed into lightworks and compared modulo the herald-preserving bijection of hidden modes; recorded random histories are validated by the LwCircuitTrace specification. LwAddPos transcribes the implementation's positional add algorithm (mode mapping over hidden modes, pass-through insertion with the cascading shift, herald insertion, provisional / full swaps) and TLC checks that it refines the line-identity Add (Refines, ValidAgree, HeraldAgree, WellFormed; three re-introduced defects are refuted in every run); its behaviours are replayed and the real objects' private bookkeeping is compared field by field with the positional record (a difference is reported as drift and triggers a deeper semantic replay, it is never a violation by itself).",
   note="Exhaustive within <=4-mode parents, <=3 additions, <=2 heralds per sub-circuit, nesting depth 2; larger histories (up to 9 modes, 14 calls) only as recorded traces. " + TB,
   technique="TLA+ models (LwCircuit: line-identity Add; LwAddPos: positional add algorithm refined against it) checked by TLC; dump / simulate behaviours replayed into the implementation; recorded traces validated by LwCircuitTrace"),
 "C08": dict(
   level="model_checking", design="DESIGN.md section 5 C08",
   text="Every LwCircuit action has an explicit frame (FrameProp: a call changes at most its target; RejectFrame: a rejected call changes nothing), checked by TLC on reuse-heavy scopes (same sub-circuit added repeatedly, edited afterwards, every invalid-argument class on parents with ancillas); in every replay and every recorded trace the observable state of EVERY live object is compared before/after EVERY call.",
   note="Observable state = (n_modes, input_modes, heralds, U_full to 1e-9). Frames of emulator / tomography / interferometer / display calls are checked inside the runs of those properties' checks. " + TB,
   technique="TLC action properties (frames) on LwCircuit; replay + trace validation comparing all live objects around every call"),
 "C09": dict(
   level="model_checking", design="DESIGN.md section 5 C09",
   text="Rewrites are contract actions of LwCircuit (transformation, heralds, input size preserved; no group after unpack; copies independent), checked by TLC with exact matrices; dumped and simulated programs with rewrites followed by further edits are replayed, and recorded rewrite-heavy histories are validated by LwCircuitTrace including the structure postconditions (no group, no non-adjacent beam splitter also inside groups, component count not grown).",
   note="Contract-style in LwCircuit: a different compression algorithm is not an alarm. In addition LwRewrites transcribes convert_non_adj_beamsplitters / combine_mode_swap_dicts / compress_mode_swaps and TLC checks them on every op list in scope (the defect F22 is kept as an expected-to-fail variant); a structural difference between transcription and implementation is DRIFT, a semantic one a violation. " + TB,
   technique="TLC on LwCircuit rewrite actions (RewriteProp, NoGroupAfterUnpack, CopyProp) and on the transcribed algorithms of LwRewrites; replay; trace validation with recorded structure"),
 "C03": dict(
   level="model_checking", design="DESIGN.md section 5 C03",
   text="Simulate is a read action of LwCircuit whose result (the table of <<permanent, factorial denominator>> pairs with herald photons on heralded lines and vacuum on loss lines) TLC computes exactly in the ring for every input with up to 2 (thorough 3) photons on every circuit in scope; SimUnit (unit vector for lossless circuits) is an invariant; every generated program + read is replayed into the real Simulator and compared entry by entry (1e-9), invalid inputs must be rejected.",
   note="Exact part: discrete parameter alphabet (ring), circuits up to 3 user modes + 3 ancillas + loss lines, up to 4 photons in one mode. Continuous parameters (<= 9 full modes) through the evaluator ev_reads applied to the abstract term TLC exports for each recorded history. Invalid-argument classes: wrong length (first or later position, too long / too short), negative, non-integer, mismatched photon numbers of inputs or outputs. " + TB,
   technique="TLC evaluates the Fock-space amplitude definition (LwFock) on LwCircuit states; dump / simulate behaviours replayed into Simulator"),
 "C04": dict(
   level="model_checking", design="DESIGN.md section 5 C04",
   text="SamplerDist (loss-marginalised exact distribution) is a read action of LwCircuit; DistNorm (non-negative, sums to one) is a TLC invariant on every circuit and input in scope; the real Sampler's probability_distribution for BOTH back-ends is compared entry by entry with TLC's exact values and with each other.",
   note="Ideal source only (C06 covers imperfect sources). Tolerance 1e-9 per truncated state. " + TB,
   technique="TLC evaluates the exact loss-marginalised distribution on LwCircuit states; behaviours replayed into Sampler with both back-ends"),
 "C05": dict(
   level="model_checking", design="DESIGN.md section 5 C05",
   text="AnalyzerTable and QuickTable are DEFINED in the specification from SamplerDist (heralds inserted, post-selection rule sets, photon number n or <= n, at most one photon per mode for threshold detection) and evaluated exactly by TLC (invariants AnalyzeBound, QuickBound); the real Analyzer (probabilities, performance, error rate) and QuickSampler (renormalised distribution) must agree on every generated circuit x input x rule set x detector mode, and must not raise where the sampler works (photon-carrying heralds, heralds with different in/out modes).",
   note="4 rule sets at model level (the same rule sets also as functions in the replay); the rule object itself is the separate specification LwPostSelection (add accepted / refused, validate as a truth table; every history with a read replayed). Continuous parameters through the calibrated evaluator ev_reads. " + TB,
   technique="TLC evaluates the defining relations between the emulator objects on LwCircuit states and checks LwPostSelection; behaviours replayed into Analyzer / QuickSampler / PostSelection, also through objects created before the circuit was built"),
 "C11": dict(
   level="model_checking", design="DESIGN.md section 5 C11",
   text="LwCache models configuration, comparison snapshot, cached and continuous distribution of Sampler and QuickSampler and the Analyzer's result attributes, with a Variant constant for the mechanism. TLC explores the COMPLETE state graph (all interleavings of reconfigurations, in-place edits and reads, no depth bound): the mechanism of the pinned tree is refuted (model-derived minimal histories are stored in the evidence), the repaired mechanism satisfies Fresh and AnalysisOwn. Behaviours of the specification are replayed on one long-lived real object and after every read its answer is compared with a freshly created object with the same settings (the property verbatim).",
   note="The replay world is fixed: four heralded 3-mode circuits (same herald mode with 0 / 1 photons, another herald mode, a lossless one), one shared Parameter inside a Mach-Zehnder loop with three values (two of them 2e-7 apart), one shared Source, Detector and PostSelection object (two in-place rule additions), two closures from one factory, two inputs, two back-ends; ten alphabets of reconfigurations. " + TB,
   technique="TLC on LwCache (complete state graph, action property Fresh keyed on the read label); simulate behaviours replayed against fresh objects"),
 "C06": dict(
   level="model_checking", design="DESIGN.md section 5 C06",
   text="LwSource is the property's construction as a state machine: photon after photon one of six emission outcomes with the documented rational weights; TLC's terminal states are exactly the emission patterns with exact weight and exact per-pattern output distribution (mode-wise convolution of the independent boson-sampling distributions of the mutually distinguishable groups, computed from the exact circuit matrix). TLC checks the outcome table sums to one and g2 = 1 - purity (ASSUME), every pattern's distribution is normalised, perfect settings give the ideal input, zero indistinguishability never populates the indistinguishable group; the harness sums the terminal states and compares with Source._build_statistics (as multisets of photon groups) and with the Sampler's distribution on both back-ends; HOM coincidence = (1 - indistinguishability)/2 is checked exactly on the aggregated model.",
   note="Rational parameter grid (brightness 1/2, 3/4, 1; two-photon weight 0, 1/7, 1/3; sqrt(indistinguishability) 0, 1/2, 3/4, 1), <= 3 photons, circuits with dyadic probabilities; continuous triples go through the evaluator (same definition with floats, calibrated against TLC each run). probability_threshold not exercised. " + TB,
   technique="TLC enumerates LwSource emission patterns with exact rational weights; aggregated terminal states compared with Source / Sampler; calibrated evaluator for continuous parameters"),
 "C07": dict(
   level="other", design="DESIGN.md section 5 C07",
   text="LwSampling models one sample through draw -> efficiency -> dark counts -> threshold -> herald check on the detected pattern -> herald removal -> post-selection -> min detection with exact rational branch weights; TLC checks the safety clauses on every emitted state of every branch and its terminal states ARE the exact detected / heralded / post-selected distribution. The real sample_N_inputs / sample_N_outputs / sample (Sampler and QuickSampler) results must contain only states the specification emits, have exactly N samples where required, be reproducible for a fixed seed, and pass a per-cell z-test (|z| <= 7) against the exact values, as must the accepted fraction.",
   note="Convergence itself is statistical: the specification supplies the exact distribution, the decision on frequencies is a hypothesis test (false-alarm probability < 3e-12 per cell for a fresh seed; deterministic for a fixed VERIF_SEED). sample_N_outputs is in scope for efficiency 1, p_dark 0. Known finding F12 (Sampler.sample on heralded circuits) is recorded, not repaired. " + TB,
   technique="TLC on LwSampling (all branches, exact weights) supplies safety verdicts and the reference distribution; hypothesis test on the implementation's frequencies"),
 "C12": dict(
   level="model_checking", design="DESIGN.md section 5 C12",
   text="LwConverter transcribes the backward pass of post_selection_analyzer and executes every gate sequence on an abstract photon-count semantics (heralded gate: logical in, logical out; post-selected gate: ANY redistribution of its photons among its pairs; swap: exchanges pairs); TLC checks Safe (acceptance implies no intermediate non-logical state) and RefusesProp for all sequences in scope with the rule 'n-1 untouched qubits', and refutes the rule of the pinned tree with a 2-gate counterexample. Every enumerated sequence (sampled), dressed with random single-qubit gates, is converted by the real converter and the property itself is checked: accepted amplitudes on all dual-rail basis inputs = one scalar x qiskit's unitary, nothing accepted outside the qubit subspace; decisions are compared with the model (difference = DRIFT, not a violation).",
   note="Scope: 3 qubits / <= 3 multi-qubit gates and 4 qubits / <= 2-3 gates exhaustively at model level (4 gates in the thorough tier), replay sampled. Reference unitary from qiskit.quantum_info.Operator. " + TB,
   technique="TLC on LwConverter (decision procedure + abstract photon-count safety); enumerated sequences replayed through the real converter and Simulator"),
 "C17": dict(
   level="model_checking", design="DESIGN.md section 5 C17",
   text="LwResults models a result as ordered inputs x ordered outputs -> value and the threshold / parity mappings (plain or inverted) as image-and-merge; TLC enumerates every ordered choice of distinct outputs in scope and every sequence of <= 2 mappings, checking that each input's total is kept, outputs stay distinct and binary, plain mappings are idempotent, amplitude-valued results are refused; every state is built as a real SimulationResult / SamplingResult, all three access paths are compared and the mapped result is compared with TLC's.",
   note="2-3 modes, <= 2 photons per state, <= 3-4 outputs, 1-2 inputs; values are distinct integers so that mis-indexing shows. Precondition: distinct states in the input / output lists. " + TB,
   technique="TLC enumerates LwResults contents and mapping sequences; dumped states replayed on the real result classes"),
 "C18": dict(
   level="model_checking", design="DESIGN.md section 5 C18",
   text="LwStates defines +, merge, slices, counts and herald insertion / removal on occupation sequences; TLC checks the laws (herald round trip for every herald position set and photon numbers, associativity, commutativity, count and slice laws) on every operand choice in scope and records each operation's result, which is compared with the real State, AnnotatedState (label order shuffled) and herald helpers (dictionary keys and positions shuffled). Immutability is probed through every accessor; dB conversions and seeded random matrices are judged by the harness.",
   note="Occupation lists of length <= 3 (4 thorough), entries <= 2, <= 2 heralds. The immutability, conversion and random-matrix clauses have no state-machine content and are harness probes. " + TB,
   technique="TLC checks the algebraic laws of LwStates on all small operands; dumped states replayed on State / AnnotatedState / herald helpers; harness probes for immutability"),
 "C13": dict(
   level="model_checking", design="DESIGN.md section 5 C13",
   text="LwGates holds the exact logical matrix of every named gate and its documented success probability; TLC checks the composition rules the library uses (CNOT = H.CZ.H, CCNOT = H.CCZ.H for every target, gate algebra, unitarity of all rotation tables) as assumptions. The harness characterises every real gate circuit (all target options, rotation angles k*pi/2, phase-gate angles k*pi/4, SWAP between disjoint mode pairs) from its heralded amplitudes on all dual-rail basis inputs, normalises by the common scalar, quantises to the ring and TLC (LwGatesTrace) judges each record against the table: matrix up to a global phase, |scalar|^2 = 1, 1/9, 1/16, 1/72, no leak for heralded gates. Generic rotation angles are judged by the closed form.",
   note="Trace validation against an exact table rather than model checking of the optics: the hard-coded CZ / CZ_Heralded / CCZ matrices contain 1/sqrt3, 2^(-1/4), sqrt(7/8), outside the ring, and are not transcribed. " + TB,
   technique="characterisation records of the real gates validated by a TLA+ trace specification against the exact gate table; design-level composition rules checked by TLC"),
 "C14": dict(
   level="model_checking", design="DESIGN.md section 5 C14",
   text="LwReck transcribes the triangular nulling schedule and the circuit Reck.map builds from it and TLC executes both EXACTLY on every monomial matrix (entries 0 or a 4th root of unity) of size 2, 3 (4 in the thorough tier) - the family that always takes the 'entry already zero' branch - checking that the schedule nulls and the mapped unit cells reproduce the matrix; the same matrices are mapped by the real Reck and structure, unitary, phase range and (as DRIFT only) the programmed phases are compared. The contract for arbitrary unitaries (identity, all permutations, DFT, block diagonal, near-degenerate around the 1e-20 threshold, Haar up to 12 modes, heralded circuits) and for error models (bounds of every drawn value, seed reproducibility, sub-unitarity) is judged numerically on the mapped circuit.",
   note="For non-ring unitaries and random error models the specification supplies only the contract; numbers are compared at 1e-10. Histories: distributions re-assigned on a used ErrorModel, a default Reck() after another one was edited in place. " + TB,
   technique="TLC executes the transcribed nulling schedule exactly on all monomial matrices; the same inputs replayed into Reck.map; contract checks on recorded mappings"),
 "C15": dict(
   level="model_checking", design="DESIGN.md section 5 C15",
   text="LwTomo defines the measurement settings ({X,Y,Z}^n with I -> Z reuse), the per-qubit basis changes (X: H, Y: H.Z.S), noiseless outcome probabilities, Pauli expectation values and the reconstructed density matrix; TLC checks rho = |psi><psi| (Hermitian, unit trace) for every state reachable by the ring gate programs in scope, including states with Y components and entangled ones. The real StateTomography runs on the corresponding lightworks circuit with a callback that verifies it receives exactly one circuit per required setting (= base + basis changes) and answers with frequencies from the harness's own permanent; rho and fidelity are compared with TLC's exact values and the base circuit must be unchanged.",
   note="Ring scope: 1 qubit (<= 3 gates) and 2 qubits (<= 2-3 gates; post-selected and heralded two-qubit gates). Continuous scope (numpy definitions pinned by the ring scope): Haar-random local unitaries around heralded / post-selected entanglers, n = 1..3 qubits. Frequencies from the harness's permanent and from the library's Analyzer; the fidelity functions are probed with last-place perturbations of the exact matrices. " + TB,
   technique="TLC checks the tomography protocol on all logical programs in scope; the programs replayed through the real StateTomography with a verifying noiseless callback"),
 "C16": dict(
   level="model_checking", design="DESIGN.md section 5 C16",
   text="LwTomo pins the Choi matrix to the EXPERIMENTS (TLC checks tr((rho^T x P) J) = tr(P V rho V^dagger) for all 6^n inputs and 4^n Paulis on every program in scope), shows at model level that the row-major vectorisation is not that matrix for non-symmetric V, and gives exact average gate fidelities. The real LIProcessTomography must return exactly that matrix AND agree with choi_from_unitary(V); GateFidelity must equal the formula for target V and for the identity; MLEProcessTomography must return a positive, trace-preserving matrix with fidelity >= 0.99.",
   note="MLE quality thresholds are numeric and judged by the harness (trace preservation 5e-3 is the order of the library's own CPTP projection stopping rule). Continuous scope: Haar-random one- and two-qubit processes (LI, gate fidelity against V / a random target / V times a global phase, MLE). " + TB,
   technique="TLC checks the defining equations of the Choi matrix and exact gate fidelities; programs replayed through the real process tomography classes"),
 "C10": dict(
   level="model_checking", design="DESIGN.md section 5 C10",
   text="LwParams (value / min / max, ParameterDict) is checked exhaustively by TLC over ALL interleavings of accepted and rejected updates (no depth bound; invariants InBounds, BoundsNumeric; action property RejectedChangesNothing) and its behaviours are replayed into real Parameter / ParameterDict objects with the full state compared after every call. LwCircuit carries parameter references in its ops and a pval variable: TLC checks LiveParams (every circuit's exact matrix is the one for the current values after ANY step, including Parameter.set, rewrites, additions, copies), FrozenProp and frames; dumped and simulated programs are replayed and U, get_all_params and compile errors compared.",
   note="Parameter values come from a small id alphabet (0, 1/2, 1; multiples of pi/4; one invalid value per kind); 2 parameters x 2 keys in LwParams, 3 parameters in LwCircuit scopes. " + TB,
   technique="TLC on LwParams (complete state graph) and LwCircuit with parameters; TLC behaviours replayed into the implementation"),
 "C19": dict(
   level="model_checking", design="DESIGN.md section 5 C19",
   text="Display is a read-only LwCircuit action whose outcome (drawn / DisplayError) is decided by the specification from the type and the label count; TLC checks the frame condition on the exhaustive rung, and thousands of TLC-generated construction programs (every component kind, labelled and unlabelled parameters, loss, barriers, unitary blocks, plain and heralded groups nested to depth 2, heralds on any modes, swaps spanning ancillas) ending in one of the 16 valid or 4 invalid option combinations are replayed under the Agg backend: outcome as specified, circuit unchanged.",
   note="Says nothing about what the picture looks like. Programs are sampled by tlc -simulate from scopes whose exhaustive state space is too large to enumerate; the exhaustive rung is small (3 modes, 2 calls + display). " + TB,
   technique="TLC on LwCircuit Display action (frame + outcome table); simulate behaviours replayed into both display back-ends"),
 "C01": dict(
   level="model_checking", design="DESIGN.md section 5 C01",
   text="TLC exhaustively explores every construction program of LwCircuit within the stated bounds (all component kinds, every ordered mode pair, both conventions, boundary values, rejected calls) carrying the exact transfer matrix in Z[i,sqrt2][1/2]; unitarity, dimension and flattened-vs-compositional semantics are invariants in every state; every dumped program is then replayed into the real Circuit and U, U_full, n_modes are compared with TLC's exact values.",
   note="Bounded scopes (<=3-4 modes, <=3-4 calls, discrete parameter alphabet) for the exhaustive part; larger programs and continuous parameters only through recorded traces judged by TLC (ring) or the calibrated evaluator. " + TB,
   technique="TLA+ model (LwCircuit) checked by TLC; TLC state dump replayed into the implementation; recorded traces validated by a TLA+ trace specification"),
}
NA_REASON = "check not built yet in this round (planned, see DESIGN.md section 5); nothing is claimed"
def main():
    checks = []
    for pid in ALL:
        if pid not in CHECKS: continue
        c = CHECKS[pid]
        checks.append({
          "property_id": pid,
          "quick_cmd": "./check %s --tier quick" % pid,
          "thorough_cmd": "./check %s --tier thorough" % pid,
          "evidence_file": "evidence/%s.json" % pid,
          "replay_cmd_template": "./check %s --replay {path}" % pid,
          "engine": "tlc+replay",
          "level_claimed": {"category": c["level"], "text": c["text"], "design_ref": c["design"]},
          "level_note": c["note"],
          "technique": c["technique"]})
    m = {"version": 1,
         "setup_cmd": "./setup.sh",
         "hooks": {"guard": "LIGHTWORKS_VERIF", "enable": "no hooks are needed: every abstract state variable is observable through the public API; checks run /repo's working tree via PYTHONPATH=/repo",
                   "baseline_off_cmd": "cd /repo && /venv/bin/python -m pytest -q -p no:cacheprovider --timeout=900", "source_commits": [], "add_only": True},
         "engines": [{"name": "tlc+replay", "path": "harness/", "serves_properties": sorted(CHECKS),
                      "kind_free_text": "explicit TLA+ specifications in spec/ checked by TLC; state dumps replayed into lightworks; recorded traces validated by TLA+ trace specifications"}],
         "checks": checks,
         "not_applicable": [{"property_id": p, "reason": NA_REASON} for p in ALL if p not in CHECKS],
         "notes": "See DESIGN.md. Exit codes: 0 held, 1 VIOLATION, 2 machinery failure."}
    with open(os.path.join(ROOT, "MANIFEST.json"), "w") as fh:
        json.dump(m, fh, indent=1)
if __name__ == "__main__":
    main()
