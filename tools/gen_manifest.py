#!/usr/bin/env python3
"""Regenerates MANIFEST.json from the table below (single source of truth for the interface)."""
import json, os
ROOT = os.path.dirname(os.path.dirname(os.path.abspath(__file__)))
ALL = ["C%02d" % i for i in range(1, 20)]
TB = "TLC 1.8 + CommunityModules; the TLA+ value parser/printer; numpy; the evaluator ev.py (re-calibrated against TLC's exact values on every run)"
CHECKS = {
 "C01": dict(
   level="model_checking", design="DESIGN.md section 5 C01",
   text="TLC exhaustively explores every construction program of LwCircuit within the stated bounds (all component kinds, every ordered mode pair, both conventions, boundary values, rejected calls) carrying the exact transfer matrix in Z[i,sqrt2][1/2]; unitarity, dimension and flattened-vs-compositional semantics are invariants in every state; every dumped program is then replayed into the real Circuit and U, U_full, n_modes are compared with TLC's exact values.",
   note="Bounded scopes (<=3-4 modes, <=3-4 calls, discrete parameter alphabet) for the exhaustive part; larger programs and continuous parameters only through recorded traces judged by TLC (ring) or the calibrated evaluator. " + TB,
   technique="TLA+ model (LwCircuit) checked by TLC; TLC state dump replayed into the implementation; recorded traces validated by a TLA+ trace specification"),
}
NA_REASON = "check not built yet in this round (planned, see DESIGN.md section 5); nothing is claimed"
def main():
    checks = []
    for pid in ALL:
        if pid not in CHECKS: continue
        c = CHECKS[pid]
        checks.append({
          "property_id": pid,
          "quick_cmd": "./check %s --tier quick" % pid,
          "thorough_cmd": "./check %s --tier thorough" % pid,
          "evidence_file": "evidence/%s.json" % pid,
          "replay_cmd_template": "./check %s --replay {path}" % pid,
          "engine": "tlc+replay",
          "level_claimed": {"category": c["level"], "text": c["text"], "design_ref": c["design"]},
          "level_note": c["note"],
          "technique": c["technique"]})
    m = {"version": 1,
         "setup_cmd": "./setup.sh",
         "hooks": {"guard": "LIGHTWORKS_VERIF", "enable": "no hooks are needed: every abstract state variable is observable through the public API; checks run /repo's working tree via PYTHONPATH=/repo",
                   "baseline_off_cmd": "cd /repo && /venv/bin/python -m pytest -q -p no:cacheprovider --timeout=900", "source_commits": [], "add_only": True},
         "engines": [{"name": "tlc+replay", "path": "harness/", "serves_properties": sorted(CHECKS),
                      "kind_free_text": "explicit TLA+ specifications in spec/ checked by TLC; state dumps replayed into lightworks; recorded traces validated by TLA+ trace specifications"}],
         "checks": checks,
         "not_applicable": [{"property_id": p, "reason": NA_REASON} for p in ALL if p not in CHECKS],
         "notes": "See DESIGN.md. Exit codes: 0 held, 1 VIOLATION, 2 machinery failure."}
    with open(os.path.join(ROOT, "MANIFEST.json"), "w") as fh:
        json.dump(m, fh, indent=1)
if __name__ == "__main__":
    main()
