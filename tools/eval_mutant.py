#!/usr/bin/env python3
"""tools/eval_mutant.py <Cxx> <mN> [extra check ids...]
Confirms a seeded change written by a sub-agent (patch applies, demonstration fails with it and passes without, repository
suite still passes) in the agent's scratch worktree, then applies it to /repo, runs the property's quick check (and any extra
ones), reverts /repo, and writes /verif/seeded/<Cxx>-<mN>/ with meta.json."""
import json, os, shutil, subprocess, sys, time
args = [a for a in sys.argv[1:] if not a.startswith("--")]
MODE = ([a for a in sys.argv[1:] if a.startswith("--")] or ["--all"])[0]
pid, m = args[0], args[1]
extra = args[2:]
VERIF = os.environ.get("VERIF_RUN_DIR", "/verif")     # where the checks are run from (a snapshot of /verif while /verif is being edited)
wt = "%s/%s" % (os.environ.get("MUT_ROOT", "/tmp/wt"), pid)
src = "%s/MUTANTS/%s" % (wt, m)
dst = "/verif/seeded/%s-%s" % (pid, m)
env = dict(os.environ, PYTHONPATH=wt, MPLBACKEND="Agg")
def sh(cmd, cwd=None, env_=None, timeout=3600):
    p = subprocess.run(cmd, shell=True, cwd=cwd, env=env_ or os.environ, stdout=subprocess.PIPE, stderr=subprocess.STDOUT, text=True, timeout=timeout)
    return p.returncode, p.stdout
meta = {"property": pid, "mutant": m, "source": "independent sub-agent given only the property text and a scratch worktree"}
if MODE == "--check-only":
    meta = json.load(open(os.path.join(dst, "meta.json")))
assert MODE == "--check-only" or sh("git status --porcelain lightworks", cwd=wt)[1].strip() == "", "scratch worktree not clean"
if MODE != "--check-only":
    rc0, _ = sh("/venv/bin/python %s/demo.py" % src, cwd=wt, env_=env)
    rc, out = sh("git apply %s/patch.diff" % src, cwd=wt)
    assert rc == 0, "patch does not apply: " + out
    try:
        rc1, o1 = sh("/venv/bin/python %s/demo.py" % src, cwd=wt, env_=env)
        rct, ot = sh("/venv/bin/python -m pytest -q -p no:cacheprovider -n 4 tests 2>&1 | tail -3", cwd=wt, env_=env)
    finally:
        sh("git checkout -- lightworks", cwd=wt)
    meta["demo_exit_clean"] = rc0
    meta["demo_exit_patched"] = rc1
    meta["repo_tests_with_patch"] = ot.strip().split("\n")[-1]
    meta["confirmed"] = (rc0 == 0 and rc1 != 0 and " passed" in ot and "failed" not in ot)
    print(pid, m, "confirm:", meta["confirmed"], rc0, rc1, meta["repo_tests_with_patch"])
os.makedirs(dst, exist_ok=True)
for f in ("patch.diff", "demo.py", "notes.md"):
    if os.path.exists(os.path.join(src, f)):
        shutil.copy(os.path.join(src, f), dst)
notes = open(os.path.join(dst, "notes.md")).read() if os.path.exists(os.path.join(dst, "notes.md")) else ""
meta["needs_to_manifest"] = notes[:1500]
results = meta.get("checks_run", {})
if MODE == "--confirm-only":
    json.dump(meta, open(os.path.join(dst, "meta.json"), "w"), indent=1)
    sys.exit(0)
REPO = os.environ.get("EVAL_REPO", "/repo")      # a scratch worktree of /repo (checks run with LW_REPO) when several evaluations run at once
if meta["confirmed"]:
    assert sh("git status --porcelain lightworks", cwd=REPO)[1].strip() == "", REPO + " not clean"
    rc, out = sh("git apply %s/patch.diff" % dst, cwd=REPO)
    assert rc == 0, out
    try:
        for chk in [pid] + extra:
            t0 = time.time()
            rc, out = sh("./check %s --tier quick" % chk, cwd=VERIF, env_=dict(os.environ, LW_REPO=REPO))
            viol = [l for l in out.split("\n") if l.startswith("VIOLATION") or l.strip().startswith("clause=")][:6]
            results[chk] = {"exit": rc, "wall_s": round(time.time() - t0, 1), "lines": viol, "tail": out.strip().split("\n")[-1][:300]}
            print(chk, "exit", rc, "%.0fs" % (time.time() - t0), viol[:2])
    finally:
        sh("git checkout -- lightworks", cwd=REPO)
        if REPO == "/repo":
            sh("rm -rf %s/replays" % VERIF)
    assert sh("git status --porcelain lightworks", cwd=REPO)[1].strip() == ""
meta["checks_run"] = results
meta["detected_by"] = [c for c, r in results.items() if r["exit"] == 1]
meta["what_was_run"] = "demo.py clean/patched in the scratch worktree; repository suite with the patch (-n 8); git -C /repo apply; ./check <id> --tier quick; git -C /repo checkout -- ."
json.dump(meta, open(os.path.join(dst, "meta.json"), "w"), indent=1)
print("detected_by:", meta["detected_by"])
