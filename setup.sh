#!/bin/sh
# offline setup: parse every specification module and byte-compile the harness
set -e
cd "$(dirname "$0")"
mkdir -p .work evidence
cd spec
for f in Lw*.tla; do
  java -cp /opt/veriftools/tla/tla2tools.jar:/opt/veriftools/tla/CommunityModules-deps.jar tla2sany.SANY "$f" > ../.work/sany.log 2>&1 || { cat ../.work/sany.log; exit 1; }
  if grep -q -E "^(\*\*\* Errors|Fatal|Semantic errors|Parse Error)" ../.work/sany.log; then cat ../.work/sany.log; exit 1; fi
done
cd ..
PYTHONPATH=/repo:. /venv/bin/python -c "import harness.cli, harness.tlc, harness.tlaval, harness.ev, harness.ring, harness.common; import lightworks"
echo setup ok
